#!/usr/bin/env python3
"""Entry point of every registered command: (re)create the overlay venv if needed, then run the
property driver inside it with tealer imported from /repo's current working tree."""
import os
import sys

HERE = os.path.dirname(os.path.abspath(__file__))
VERIF = os.path.dirname(HERE)
sys.path.insert(0, VERIF)
from vlib import bootstrap  # noqa: E402

py = bootstrap.ensure()
env = dict(os.environ)
env["PYTHONPATH"] = VERIF + (":" + env["PYTHONPATH"] if env.get("PYTHONPATH") else "")
env["PYTHONHASHSEED"] = env.get("PYTHONHASHSEED", "0")
env["PYTHONDONTWRITEBYTECODE"] = "1"
env["TEALER_VERIF"] = "1"
os.chdir(VERIF)
os.execve(py, [py, "-m", "props.main"] + sys.argv[1:], env)
