"""Engine S obligations: translation validation of tealer's per-program output against the
z3 semantics of that program.  Every function takes the program text, runs real tealer on it,
explores the program symbolically and returns a list of ``Finding`` objects (replay-confirmed)."""
from __future__ import annotations

import time
from dataclasses import dataclass, field
from typing import Any, Callable, Dict, List, Optional, Sequence, Set, Tuple

import z3

from vlib import claims as cl
from vlib import symexec as sx
from vlib import tealsem as ts
from vlib.tealerio import Run
from vlib.tealsem import ADDR_ATT, ADDR_ZERO, MAX_GROUP, MAX_UINT64


@dataclass
class Finding:
    prop: str
    kind: str  # which obligation
    src: str
    what: str  # human-readable statement of the contradiction
    model: Optional[Dict[str, Any]] = None
    path_lines: Optional[List[int]] = None
    block_line: Optional[int] = None
    claim: str = ""
    observed: Any = None
    replayed: bool = False
    extra: Dict[str, Any] = field(default_factory=dict)

    def to_json(self) -> Dict[str, Any]:
        return {
            "property": self.prop,
            "engine": "S",
            "obligation": self.kind,
            "program": self.src,
            "what": self.what,
            "model": self.model,
            "path_lines": self.path_lines,
            "block_line": self.block_line,
            "claim": self.claim,
            "tealer_observed": self.observed,
            "replayed": self.replayed,
            "extra": self.extra,
        }


@dataclass
class ProgStats:
    paths: int = 0
    accepting: int = 0
    cut: int = 0
    queries: Dict[str, int] = field(default_factory=lambda: {"sat": 0, "unsat": 0, "unknown": 0})
    solver_s: float = 0.0
    tealer_s: float = 0.0
    skipped: str = ""
    nontrivial: bool = False  # at least one non-default claim was checked / danger query was sat

    def absorb(self, dom: sx.Z3Dom) -> None:
        self.queries["sat"] += dom.stats.sat
        self.queries["unsat"] += dom.stats.unsat
        self.queries["unknown"] += dom.stats.unknown
        self.solver_s += dom.stats.time


class HarnessError(Exception):
    """The oracle contradicted itself (a model that does not replay, a vacuous query...)."""


def _lines(prog: ts.Prog, trace: Sequence[Tuple]) -> List[int]:
    return [prog.ins[e[0]].line for e in trace]


def _concrete_claim_violated(run: Run, block: Any, tag: str, model: Dict[str, Any], addr_tab: Dict[str, int]) -> bool:
    """Re-evaluate one claim of tealer on a concrete model in plain Python (independent of the z3 rendering)."""
    from tealer.utils.teal_enums import TealerTransactionType as T

    ctx = run.ctx(block)
    gs, gi = model["gs"], model["gi"]
    slot = gi
    guard = True
    name = tag
    if tag.startswith("gtxn_context("):
        i = int(tag[len("gtxn_context("):tag.index(")")])
        ctx = ctx.gtxn_context(i)
        guard = gi == i
        name = tag[tag.index(").") + 2:]
    elif tag.startswith("absolute_context("):
        i = int(tag[len("absolute_context("):tag.index(")")])
        ctx = ctx.absolute_context(i)
        guard = i < gs
        slot = i
        name = tag[tag.index(").") + 2:]
    elif tag.startswith("relative_context("):
        k = int(tag[len("relative_context("):tag.index(")")])
        ctx = ctx.relative_context(k)
        slot = gi + k
        guard = 0 <= slot < gs
        name = tag[tag.index(").") + 2:]
    if not guard:
        return False

    def fld(f: str) -> int:
        return int(model["fields"].get(f, {}).get(str(slot), 0))

    if name == "group_sizes":
        return gs not in ctx.group_sizes
    if name == "group_indices":
        return gi not in ctx.group_indices
    if name == "max_fee":
        return (not ctx.max_fee_unknown) and fld("Fee") > ctx.max_fee
    if name.startswith("transaction_types"):
        te, oc = fld("TypeEnum"), fld("OnCompletion")
        types = ctx.transaction_types
        if "[appl]" not in name:
            if te == 1 and T.Pay not in types:
                return True
            if te == 4 and T.Axfer not in types:
                return True
        if "[nonappl]" not in name:
            if te == 6 and oc == 4 and T.ApplUpdateApplication not in types:
                return True
            if te == 6 and oc == 5 and T.ApplDeleteApplication not in types:
                return True
        return False
    for fname, attr in cl.ADDR_CTX_ATTR.items():
        if name == attr:
            v = getattr(ctx, attr)
            a = fld(fname)
            if v.any_addr or a == ADDR_ZERO:
                return False
            codes = set()
            for s in v.possible_addr:
                if s == "CREATOR_ADDRESS":
                    codes.add(ts.ADDR_CREATOR)
                elif s in addr_tab:
                    codes.add(addr_tab[s])
                else:
                    return False
            return a not in codes
    raise HarnessError(f"unknown claim tag {tag}")


ALL_KEYS = ("gs", "gi", "kinds", "fee", "RekeyTo", "CloseRemainderTo", "AssetCloseTo", "Sender")


def check_soundness(
    src: str,
    prop: str,
    keys: Sequence[str] = ALL_KEYS,
    gtxn: bool = False,
    unroll: int = 2,
    run: Optional[Run] = None,
    prefix_lines: Optional[List[int]] = None,
    function: Any = None,
) -> Tuple[List[Finding], ProgStats]:
    """EXACT mode: every accepting execution is admitted by the context of every block it visits."""
    st = ProgStats()
    prog = ts.tokenize(src)
    t0 = time.time()
    if run is None:
        run = Run(src, detectors=[])
    st.tealer_s = time.time() - t0
    addr_tab = ts.address_table(prog)
    findings: List[Finding] = []
    seen: Set[Tuple[int, str]] = set()
    claim_cache: Dict[int, List[Tuple[str, Any]]] = {}
    fn = function if function is not None else run.function
    by_line = {b.entry_instr.line: b for b in fn.blocks}

    class _R:  # view of run with another function (dispatch-path functions)
        def __init__(self) -> None:
            self.function = fn

        @staticmethod
        def ctx(b: Any) -> Any:
            return fn.transaction_context(b)

    rview = _R() if function is not None else run

    prefix = None
    if prefix_lines is not None:
        line_to_pc = {ins.line: ins.idx for ins in prog.ins}
        prefix = [line_to_pc[l] for l in prefix_lines]

    def on_accept(dom: sx.Z3Dom, res: ts.PathResult, _st: Any) -> None:
        st.accepting += 1
        blocks = []
        for e in res.trace:
            line = prog.ins[e[0]].line
            b = by_line.get(line)
            if b is None:
                raise HarnessError(f"accepting execution enters line {line} which is no block of the function")
            blocks.append((line, b))
        negs = []
        items = []
        for line, b in blocks:
            if line not in claim_cache:
                claim_cache[line] = cl.block_claims(dom, rview, b, addr_tab, keys, gtxn)
            for tag, c in claim_cache[line]:
                if (line, tag) in seen:
                    continue
                negs.append(z3.Not(c))
                items.append((line, b, tag, c))
        if not negs:
            return
        st.nontrivial = True
        dom.push()
        dom.add(z3.Or(*negs))
        r = dom.check()
        if r == "sat":
            model = dom.extract_model()
            m = dom.solver.model()
            for line, b, tag, c in items:
                if z3.is_false(m.eval(c, model_completion=True)):
                    seen.add((line, tag))
                    f = Finding(
                        prop,
                        "soundness:" + tag,
                        src,
                        f"accepting execution (gs={model['gs']}, gi={model['gi']}) passes the block at line {line} but is not admitted by {tag}",
                        model,
                        _lines(prog, res.trace),
                        line,
                        tag,
                        cl.describe_ctx(rview.ctx(b)) if "context(" not in tag else tag,
                    )
                    # replay on the concrete instance of the semantics
                    rep = sx.replay(prog, model, "EXACT", None, unroll)
                    ok = rep.accepted and [e[0] for e in rep.trace] == [e[0] for e in res.trace]
                    if ok and _concrete_claim_violated(rview, b, tag, model, addr_tab):
                        f.replayed = True
                    findings.append(f)
        dom.pop()

    def on_any(dom: sx.Z3Dom, res: ts.PathResult, _st: Any) -> None:
        st.paths += 1
        if res.cut:
            st.cut += 1

    try:
        ex, dom = sx.explore(prog, "EXACT", None, unroll, on_accept=on_accept, on_any=on_any, prefix=prefix)
    except ts.Unsupported as e:
        st.skipped = f"unsupported opcode {e}"
        return [], st
    st.absorb(dom)
    if ex.runtime_cmp_governed:
        st.extra_runtime_cmp = True  # type: ignore[attr-defined]
    return findings, st


# ---------------------------------------------------------------------------------------------
# FREE-mode exactness of the GroupSize / GroupIndex sets (C06, precision half)
# ---------------------------------------------------------------------------------------------


def multi_site_subs(prog: ts.Prog) -> Set[int]:
    """Entry pcs of subroutines that are the target of more than one callsub instruction."""
    cnt: Dict[int, int] = {}
    for ins in prog.ins:
        if ins.op == "callsub" and ins.args and ins.args[0] in prog.labels:
            t = prog.labels[ins.args[0]]
            cnt[t] = cnt.get(t, 0) + 1
    return {t for t, n in cnt.items() if n > 1}


def _free_admitted(prog: ts.Prog, key: str, var_of: Callable[[sx.Z3Dom], Any], universe: Sequence[int], retsub_any: bool,
                   unroll: int, st: ProgStats) -> Tuple[Dict[int, Set[int]], Dict[int, bool], bool]:
    """-> (admitted values per block-leader pc over accepting FREE paths, pc -> inside multi-site sub, cut seen)"""
    admitted: Dict[int, Set[int]] = {}
    inside: Dict[int, bool] = {}
    multi = multi_site_subs(prog)
    cut = [False]

    def on_accept(dom: sx.Z3Dom, res: ts.PathResult, _s: Any) -> None:
        st.accepting += 1
        vals = set()
        v = var_of(dom)
        for u in universe:
            if dom.check(v == u) == "sat":
                vals.add(u)
        for pc, _act, entries in res.trace:
            admitted.setdefault(pc, set()).update(vals)
            if any(e in multi for e in entries):
                inside[pc] = True

    def on_any(dom: sx.Z3Dom, res: ts.PathResult, _s: Any) -> None:
        st.paths += 1
        if res.cut:
            st.cut += 1
            cut[0] = True

    _ex, dom = sx.explore(prog, "FREE", [key], unroll, retsub_any=retsub_any, on_accept=on_accept, on_any=on_any)
    st.absorb(dom)
    return admitted, inside, cut[0]


def check_exact_int(src: str, prop: str = "C06", unroll: int = 2, run: Optional[Run] = None) -> Tuple[List[Finding], ProgStats]:
    """Direct-check reading: listed value <=> admitted by some accepting FREE path through the block."""
    st = ProgStats()
    prog = ts.tokenize(src)
    t0 = time.time()
    if run is None:
        run = Run(src, detectors=[])
    st.tealer_s = time.time() - t0
    findings: List[Finding] = []
    try:
        res: Dict[str, Any] = {}
        for key, var_of, uni in (("GroupSize", lambda d: d.gs, range(1, 17)), ("GroupIndex", lambda d: d.gi, range(0, 16))):
            exact, inside, _ = _free_admitted(prog, key, var_of, list(uni), False, unroll, st)
            upper, inside2, _ = _free_admitted(prog, key, var_of, list(uni), True, unroll, st) if multi_site_subs(prog) else (exact, inside, False)
            res[key] = (exact, upper, {**inside, **inside2})
    except ts.Unsupported as e:
        st.skipped = f"unsupported opcode {e}"
        return [], st
    st.nontrivial = True
    for b in run.function.blocks:
        line = b.entry_instr.line
        pcs = [i.idx for i in prog.ins if i.line == line]
        if not pcs:
            continue  # synthetic block
        pc = pcs[0]
        ctx = run.ctx(b)
        listed_gs, listed_gi = set(ctx.group_sizes), set(ctx.group_indices)
        ex_gs, up_gs, ins_gs = res["GroupSize"][0].get(pc, set()), res["GroupSize"][1].get(pc, set()), res["GroupSize"][2].get(pc, False)
        ex_gi, up_gi, ins_gi = res["GroupIndex"][0].get(pc, set()), res["GroupIndex"][1].get(pc, set()), res["GroupIndex"][2].get(pc, False)
        maxs = max(listed_gs, default=0)
        need_gi = {v for v in ex_gi if v < maxs}

        def add(kind: str, what: str, obs: Any, exp: Any) -> None:
            findings.append(Finding(prop, kind, src, what, None, None, line, kind, obs, True, {"expected": exp}))

        if not ex_gs <= listed_gs:
            add("exact:group_sizes:missing", f"block at line {line}: sizes {sorted(ex_gs - listed_gs)} are admitted by an accepting direct-check path but not listed",
                sorted(listed_gs), sorted(ex_gs))
        if not listed_gs <= (up_gs if ins_gs else ex_gs):
            add("exact:group_sizes:extra", f"block at line {line}: sizes {sorted(listed_gs - (up_gs if ins_gs else ex_gs))} are listed but no accepting direct-check path through the block admits them",
                sorted(listed_gs), sorted(up_gs if ins_gs else ex_gs))
        if not need_gi <= listed_gi:
            add("exact:group_indices:missing", f"block at line {line}: indices {sorted(need_gi - listed_gi)} admitted (and below the largest listed size) but not listed",
                sorted(listed_gi), sorted(need_gi))
        if not listed_gi <= (up_gi if ins_gi else ex_gi):
            add("exact:group_indices:extra", f"block at line {line}: indices {sorted(listed_gi - (up_gi if ins_gi else ex_gi))} listed but not admitted by any accepting direct-check path",
                sorted(listed_gi), sorted(up_gi if ins_gi else ex_gi))
        if any(i >= maxs for i in listed_gi):
            add("coupling", f"block at line {line}: index listed without a larger size", [sorted(listed_gs), sorted(listed_gi)], None)
    return findings, st


# ---------------------------------------------------------------------------------------------
# FREE-mode reading of the fee bound (C09)
# ---------------------------------------------------------------------------------------------


def program_int_constants(prog: ts.Prog) -> List[int]:
    out = set()
    for ins in prog.ins:
        if ins.op in ("int", "pushint") and ins.args:
            v = ts.int_arg(ins.args[0])
            if v is not None:
                out.add(v)
        if ins.op == "intcblock":
            for a in ins.args:
                v = ts.parse_int_literal(a)
                if v is not None:
                    out.add(v)
    return sorted(out)


def check_fee_free(src: str, prop: str = "C09", exact: bool = False, unroll: int = 2, run: Optional[Run] = None) -> Tuple[List[Finding], ProgStats]:
    """Direct-check reading of Fee: the largest fee admitted by an accepting FREE path through each block.

    always: tealer's known bound at the block is >= that fee ("credited only if every accepting path is
    constrained"); exact=True (programs with a single direct Fee check): the bound equals it."""
    st = ProgStats()
    prog = ts.tokenize(src)
    t0 = time.time()
    if run is None:
        run = Run(src, detectors=[])
    st.tealer_s = time.time() - t0
    cands = {0, 272000, 272001, MAX_UINT64}
    for c in program_int_constants(prog):
        for d in (-1, 0, 1):
            if 0 <= c + d <= MAX_UINT64:
                cands.add(c + d)
    order = sorted(cands, reverse=True)
    best: Dict[int, int] = {}
    inside: Dict[int, bool] = {}
    multi = multi_site_subs(prog)

    def on_accept(dom: sx.Z3Dom, res: ts.PathResult, _s: Any) -> None:
        st.accepting += 1
        fee = dom.field("Fee", dom.gi)
        top = None
        for c in order:
            if dom.check(fee == c) == "sat":
                top = c
                break
        if top is None:
            return
        for pc, _a, entries in res.trace:
            best[pc] = max(best.get(pc, -1), top)
            if any(e in multi for e in entries):
                inside[pc] = True

    def on_any(dom: sx.Z3Dom, res: ts.PathResult, _s: Any) -> None:
        st.paths += 1
        if res.cut:
            st.cut += 1

    try:
        ex, dom = sx.explore(prog, "FREE", ["Fee"], unroll, on_accept=on_accept, on_any=on_any)
    except ts.Unsupported as e:
        st.skipped = f"unsupported opcode {e}"
        return [], st
    st.absorb(dom)
    st.nontrivial = True
    findings: List[Finding] = []
    for b in run.function.blocks:
        line = b.entry_instr.line
        pcs = [i.idx for i in prog.ins if i.line == line]
        if not pcs or pcs[0] not in best:
            continue
        pc = pcs[0]
        ctx = run.ctx(b)
        adm = best[pc]
        if ctx.max_fee_unknown:
            if ex.runtime_cmp_governed:
                continue
            findings.append(Finding(prop, "free:max_fee_unknown", src,
                                    f"block at line {line}: bound reported as 'unknown' although Fee is only compared with literal constants", None, None, line,
                                    "max_fee_unknown", True, True, {"admitted": adm}))
            continue
        if ctx.max_fee < adm:
            findings.append(Finding(prop, "free:max_fee", src,
                                    f"block at line {line}: fee {adm} is admitted by an accepting direct-check path but the reported bound is {ctx.max_fee}", None, None, line,
                                    "max_fee", ctx.max_fee, True, {"admitted": adm}))
        elif exact and not inside.get(pc) and ctx.max_fee != adm and not (ctx.max_fee == MAX_UINT64 and adm >= MAX_UINT64 - 1):
            # (the unbounded side of a comparison with 2^64-1 is reported as "no bound": not an inexactness
            #  of the bounded forms the property lists)
            findings.append(Finding(prop, "exact:max_fee", src,
                                    f"block at line {line}: single direct check implies the bound {adm}, reported {ctx.max_fee}", None, None, line,
                                    "max_fee", ctx.max_fee, True, {"admitted": adm}))
    return findings, st
