"""Engine S obligations: translation validation of tealer's per-program output against the
z3 semantics of that program.  Every function takes the program text, runs real tealer on it,
explores the program symbolically and returns a list of ``Finding`` objects (replay-confirmed)."""
from __future__ import annotations

import time
from dataclasses import dataclass, field
from typing import Any, Callable, Dict, List, Optional, Sequence, Set, Tuple

import z3

from vlib import claims as cl
from vlib import symexec as sx
from vlib import tealsem as ts
from vlib.tealerio import Run
from vlib.tealsem import ADDR_ATT, ADDR_ZERO, MAX_GROUP, MAX_UINT64


@dataclass
class Finding:
    prop: str
    kind: str  # which obligation
    src: str
    what: str  # human-readable statement of the contradiction
    model: Optional[Dict[str, Any]] = None
    path_lines: Optional[List[int]] = None
    block_line: Optional[int] = None
    claim: str = ""
    observed: Any = None
    replayed: bool = False
    extra: Dict[str, Any] = field(default_factory=dict)

    def to_json(self) -> Dict[str, Any]:
        return {
            "property": self.prop,
            "engine": "S",
            "obligation": self.kind,
            "program": self.src,
            "what": self.what,
            "model": self.model,
            "path_lines": self.path_lines,
            "block_line": self.block_line,
            "claim": self.claim,
            "tealer_observed": self.observed,
            "replayed": self.replayed,
            "extra": self.extra,
        }


@dataclass
class ProgStats:
    paths: int = 0
    accepting: int = 0
    cut: int = 0
    queries: Dict[str, int] = field(default_factory=lambda: {"sat": 0, "unsat": 0, "unknown": 0})
    solver_s: float = 0.0
    tealer_s: float = 0.0
    skipped: str = ""
    nontrivial: bool = False  # at least one non-default claim was checked / danger query was sat
    extra: Dict[str, Any] = field(default_factory=dict)  # additional integer counters (states, transitions, ...)

    def absorb(self, dom: sx.Z3Dom) -> None:
        self.queries["sat"] += dom.stats.sat
        self.queries["unsat"] += dom.stats.unsat
        self.queries["unknown"] += dom.stats.unknown
        self.solver_s += dom.stats.time


class HarnessError(Exception):
    """The oracle contradicted itself (a model that does not replay, a vacuous query...)."""


def _lines(prog: ts.Prog, trace: Sequence[Tuple]) -> List[int]:
    return [prog.ins[e[0]].line for e in trace]


def _concrete_claim_violated(run: Run, block: Any, tag: str, model: Dict[str, Any], addr_tab: Dict[str, int]) -> bool:
    """Re-evaluate one claim of tealer on a concrete model in plain Python (independent of the z3 rendering)."""
    from tealer.utils.teal_enums import TealerTransactionType as T

    ctx = run.ctx(block)
    gs, gi = model["gs"], model["gi"]
    slot = gi
    guard = True
    name = tag
    if tag.startswith("gtxn_context("):
        i = int(tag[len("gtxn_context("):tag.index(")")])
        ctx = ctx.gtxn_context(i)
        guard = gi == i
        name = tag[tag.index(").") + 2:]
    elif tag.startswith("absolute_context("):
        i = int(tag[len("absolute_context("):tag.index(")")])
        ctx = ctx.absolute_context(i)
        guard = i < gs
        slot = i
        name = tag[tag.index(").") + 2:]
    elif tag.startswith("relative_context("):
        k = int(tag[len("relative_context("):tag.index(")")])
        ctx = ctx.relative_context(k)
        slot = gi + k
        guard = 0 <= slot < gs
        name = tag[tag.index(").") + 2:]
    if not guard:
        return False

    def fld(f: str) -> int:
        return int(model["fields"].get(f, {}).get(str(slot), 0))

    if name == "group_sizes":
        return gs not in ctx.group_sizes
    if name == "group_indices":
        return gi not in ctx.group_indices
    if name == "max_fee":
        return (not ctx.max_fee_unknown) and fld("Fee") > ctx.max_fee
    if name.startswith("transaction_types"):
        te, oc = fld("TypeEnum"), fld("OnCompletion")
        types = ctx.transaction_types
        if "[appl]" not in name:
            if te == 1 and T.Pay not in types:
                return True
            if te == 4 and T.Axfer not in types:
                return True
        if "[nonappl]" not in name:
            if te == 6 and oc == 4 and T.ApplUpdateApplication not in types:
                return True
            if te == 6 and oc == 5 and T.ApplDeleteApplication not in types:
                return True
        return False
    for fname, attr in cl.ADDR_CTX_ATTR.items():
        if name == attr:
            v = getattr(ctx, attr)
            a = fld(fname)
            if v.any_addr or a == ADDR_ZERO:
                return False
            codes = set()
            for s in v.possible_addr:
                if s == "CREATOR_ADDRESS":
                    codes.add(ts.ADDR_CREATOR)
                elif s in addr_tab:
                    codes.add(addr_tab[s])
                else:
                    return False
            return a not in codes
    raise HarnessError(f"unknown claim tag {tag}")


ALL_KEYS = ("gs", "gi", "kinds", "fee", "RekeyTo", "CloseRemainderTo", "AssetCloseTo", "Sender")


def check_soundness(
    src: str,
    prop: str,
    keys: Sequence[str] = ALL_KEYS,
    gtxn: bool = False,
    unroll: int = 2,
    run: Optional[Run] = None,
    prefix_lines: Optional[List[int]] = None,
    function: Any = None,
) -> Tuple[List[Finding], ProgStats]:
    """EXACT mode: every accepting execution is admitted by the context of every block it visits."""
    st = ProgStats()
    prog = ts.tokenize(src)
    t0 = time.time()
    if run is None:
        run = Run(src, detectors=[])
    st.tealer_s = time.time() - t0
    addr_tab = ts.address_table(prog)
    findings: List[Finding] = []
    seen: Set[Tuple[int, str]] = set()
    claim_cache: Dict[int, List[Tuple[str, Any]]] = {}
    fn = function if function is not None else run.function
    by_line = {b.entry_instr.line: b for b in fn.blocks}

    class _R:  # view of run with another function (dispatch-path functions)
        def __init__(self) -> None:
            self.function = fn

        @staticmethod
        def ctx(b: Any) -> Any:
            return fn.transaction_context(b)

    rview = _R() if function is not None else run

    prefix = None
    if prefix_lines is not None:
        line_to_pc = {ins.line: ins.idx for ins in prog.ins}
        prefix = [line_to_pc[l] for l in prefix_lines]

    def on_accept(dom: sx.Z3Dom, res: ts.PathResult, _st: Any) -> None:
        st.accepting += 1
        blocks = []
        for e in res.trace:
            line = prog.ins[e[0]].line
            b = by_line.get(line)
            if b is None:
                if function is None:
                    raise HarnessError(f"accepting execution enters line {line} which is no block of the function")
                if ("missing", line) not in seen:
                    seen.add(("missing", line))  # type: ignore[arg-type]
                    findings.append(Finding(prop, "missing-block", src,
                                            f"an approved execution that starts with the dispatch path enters the block at line {line}, which the function does not contain",
                                            None, _lines(prog, res.trace), line, "blocks", None, True))
                continue
            blocks.append((line, b))
        negs = []
        items = []
        for line, b in blocks:
            if line not in claim_cache:
                claim_cache[line] = cl.block_claims(dom, rview, b, addr_tab, keys, gtxn)
            for tag, c in claim_cache[line]:
                if (line, tag) in seen:
                    continue
                negs.append(z3.Not(c))
                items.append((line, b, tag, c))
        if not negs:
            return
        st.nontrivial = True
        dom.push()
        dom.add(z3.Or(*negs))
        r = dom.check()
        if r == "sat":
            model = dom.extract_model()
            m = dom.solver.model()
            for line, b, tag, c in items:
                if z3.is_false(m.eval(c, model_completion=True)):
                    seen.add((line, tag))
                    f = Finding(
                        prop,
                        "soundness:" + tag,
                        src,
                        f"accepting execution (gs={model['gs']}, gi={model['gi']}) passes the block at line {line} but is not admitted by {tag}",
                        model,
                        _lines(prog, res.trace),
                        line,
                        tag,
                        cl.describe_ctx(rview.ctx(b)) if "context(" not in tag else tag,
                    )
                    # replay on the concrete instance of the semantics
                    rep = sx.replay(prog, model, "EXACT", None, unroll)
                    ok = rep.accepted and [e[0] for e in rep.trace] == [e[0] for e in res.trace]
                    if ok and _concrete_claim_violated(rview, b, tag, model, addr_tab):
                        f.replayed = True
                    findings.append(f)
        dom.pop()

    def on_any(dom: sx.Z3Dom, res: ts.PathResult, _st: Any) -> None:
        st.paths += 1
        if res.cut:
            st.cut += 1

    try:
        ex, dom = sx.explore(prog, "EXACT", None, unroll, on_accept=on_accept, on_any=on_any, prefix=prefix)
    except ts.Unsupported as e:
        st.skipped = f"unsupported opcode {e}"
        return [], st
    st.absorb(dom)
    if gtxn:
        # "this transaction when it sits at index i" is empty when i is impossible (not a listed index)
        for b in fn.blocks:
            ctx = rview.ctx(b)
            for i in range(MAX_GROUP):
                if i not in ctx.group_indices and not cl.is_empty_tail(ctx.gtxn_context(i)):
                    findings.append(Finding(prop, "gtxn_context:not-empty", src,
                                            f"block at line {b.entry_instr.line}: index {i} is not a possible group index but gtxn_context({i}) is not empty",
                                            None, None, b.entry_instr.line, f"gtxn_context({i})", cl.describe_ctx(ctx.gtxn_context(i)), True))
                    break
    return findings, st


# ---------------------------------------------------------------------------------------------
# FREE-mode exactness of the GroupSize / GroupIndex sets (C06, precision half)
# ---------------------------------------------------------------------------------------------


FREE_DEPTH = 8  # call depth bound of the direct-check explorations (cuts beyond it are reported, never turned into alarms)


def multi_site_subs(prog: ts.Prog) -> Set[int]:
    """Entry pcs of subroutines that are the target of more than one callsub instruction."""
    cnt: Dict[int, int] = {}
    for ins in prog.ins:
        if ins.op == "callsub" and ins.args and ins.args[0] in prog.labels:
            t = prog.labels[ins.args[0]]
            cnt[t] = cnt.get(t, 0) + 1
    return {t for t, n in cnt.items() if n > 1}


def _free_admitted(prog: ts.Prog, key: str, var_of: Callable[[sx.Z3Dom], Any], universe: Sequence[int], retsub_any: bool,
                   unroll: int, st: ProgStats, prefix: Optional[List[int]] = None, early_ok: bool = False) -> Tuple[Dict[int, Set[int]], Dict[int, bool], bool]:
    """-> (admitted values per block-leader pc over accepting FREE paths, pc -> inside multi-site sub, cut seen)"""
    admitted: Dict[int, Set[int]] = {}
    inside: Dict[int, bool] = {}
    multi = multi_site_subs(prog)
    cut = [False]

    def on_accept(dom: sx.Z3Dom, res: ts.PathResult, _s: Any) -> None:
        st.accepting += 1
        vals = set()
        v = var_of(dom)
        for u in universe:
            if dom.check(v == u) == "sat":
                vals.add(u)
        for pc, _act, entries in res.trace:
            admitted.setdefault(pc, set()).update(vals)
            if any(e in multi for e in entries):
                inside[pc] = True

    def on_any(dom: sx.Z3Dom, res: ts.PathResult, _s: Any) -> None:
        st.paths += 1
        if res.cut:
            st.cut += 1
            if res.cut != "loop":
                cut[0] = True  # depth / fuel / budget: the set of accepting paths may be incomplete

    _ex, dom = sx.explore(prog, "FREE", [key], unroll, max_depth=FREE_DEPTH, retsub_any=retsub_any, on_accept=on_accept, on_any=on_any, prefix=prefix, prefix_early_exit_ok=early_ok)
    st.absorb(dom)
    return admitted, inside, cut[0]


def check_exact_int(src: str, prop: str = "C06", unroll: int = 2, run: Optional[Run] = None,
                    function: Any = None, prefix_lines: Optional[List[int]] = None, early_ok: bool = False) -> Tuple[List[Finding], ProgStats]:
    """Direct-check reading: listed value <=> admitted by some accepting FREE path through the block."""
    st = ProgStats()
    prog = ts.tokenize(src)
    t0 = time.time()
    if run is None and function is None:
        run = Run(src, detectors=[])
    st.tealer_s = time.time() - t0
    fn = function if function is not None else run.function
    prefix = None
    if prefix_lines is not None:
        l2p = {ins.line: ins.idx for ins in prog.ins}
        prefix = [l2p[l] for l in prefix_lines]
    findings: List[Finding] = []
    incomplete = False
    try:
        res: Dict[str, Any] = {}
        for key, var_of, uni in (("GroupSize", lambda d: d.gs, range(1, 17)), ("GroupIndex", lambda d: d.gi, range(0, 16))):
            exact, inside, inc1 = _free_admitted(prog, key, var_of, list(uni), False, unroll, st, prefix, early_ok)
            upper, inside2, inc2 = _free_admitted(prog, key, var_of, list(uni), True, unroll, st, prefix, early_ok) if multi_site_subs(prog) else (exact, inside, False)
            res[key] = (exact, upper, {**inside, **inside2})
            incomplete = incomplete or inc1 or inc2
    except ts.Unsupported as e:
        st.skipped = f"unsupported opcode {e}"
        return [], st
    st.nontrivial = True
    for b in fn.blocks:
        line = b.entry_instr.line
        pcs = [i.idx for i in prog.ins if i.line == line]
        if not pcs:
            continue  # synthetic block
        pc = pcs[0]
        ctx = fn.transaction_context(b)
        listed_gs, listed_gi = set(ctx.group_sizes), set(ctx.group_indices)
        ex_gs, up_gs, ins_gs = res["GroupSize"][0].get(pc, set()), res["GroupSize"][1].get(pc, set()), res["GroupSize"][2].get(pc, False)
        ex_gi, up_gi, ins_gi = res["GroupIndex"][0].get(pc, set()), res["GroupIndex"][1].get(pc, set()), res["GroupIndex"][2].get(pc, False)
        maxs = max(listed_gs, default=0)
        need_gi = {v for v in ex_gi if v < maxs}

        def add(kind: str, what: str, obs: Any, exp: Any) -> None:
            findings.append(Finding(prop, kind, src, what, None, None, line, kind, obs, True, {"expected": exp}))

        if not ex_gs <= listed_gs:
            add("exact:group_sizes:missing", f"block at line {line}: sizes {sorted(ex_gs - listed_gs)} are admitted by an accepting direct-check path but not listed",
                sorted(listed_gs), sorted(ex_gs))
        if not incomplete and not listed_gs <= (up_gs if ins_gs else ex_gs):
            add("exact:group_sizes:extra", f"block at line {line}: sizes {sorted(listed_gs - (up_gs if ins_gs else ex_gs))} are listed but no accepting direct-check path through the block admits them",
                sorted(listed_gs), sorted(up_gs if ins_gs else ex_gs))
        if not need_gi <= listed_gi:
            add("exact:group_indices:missing", f"block at line {line}: indices {sorted(need_gi - listed_gi)} admitted (and below the largest listed size) but not listed",
                sorted(listed_gi), sorted(need_gi))
        if not incomplete and not listed_gi <= (up_gi if ins_gi else ex_gi):
            add("exact:group_indices:extra", f"block at line {line}: indices {sorted(listed_gi - (up_gi if ins_gi else ex_gi))} listed but not admitted by any accepting direct-check path",
                sorted(listed_gi), sorted(up_gi if ins_gi else ex_gi))
        if any(i >= maxs for i in listed_gi):
            add("coupling", f"block at line {line}: index listed without a larger size", [sorted(listed_gs), sorted(listed_gi)], None)
    return findings, st


# ---------------------------------------------------------------------------------------------
# FREE-mode reading of the fee bound (C09)
# ---------------------------------------------------------------------------------------------


def program_int_constants(prog: ts.Prog) -> List[int]:
    out = set()
    for ins in prog.ins:
        if ins.op in ("int", "pushint") and ins.args:
            v = ts.int_arg(ins.args[0])
            if v is not None:
                out.add(v)
        if ins.op == "intcblock":
            for a in ins.args:
                v = ts.parse_int_literal(a)
                if v is not None:
                    out.add(v)
    return sorted(out)


def check_fee_free(src: str, prop: str = "C09", exact: bool = False, unroll: int = 2, run: Optional[Run] = None) -> Tuple[List[Finding], ProgStats]:
    """Direct-check reading of Fee: the largest fee admitted by an accepting FREE path through each block.

    always: tealer's known bound at the block is >= that fee ("credited only if every accepting path is
    constrained"); exact=True (programs with a single direct Fee check): the bound equals it."""
    st = ProgStats()
    prog = ts.tokenize(src)
    t0 = time.time()
    if run is None:
        run = Run(src, detectors=[])
    st.tealer_s = time.time() - t0
    cands = {0, 272000, 272001, MAX_UINT64}
    for c in program_int_constants(prog):
        for d in (-1, 0, 1):
            if 0 <= c + d <= MAX_UINT64:
                cands.add(c + d)
    order = sorted(cands, reverse=True)
    best: Dict[int, int] = {}
    inside: Dict[int, bool] = {}
    multi = multi_site_subs(prog)

    def on_accept(dom: sx.Z3Dom, res: ts.PathResult, _s: Any) -> None:
        st.accepting += 1
        fee = dom.field("Fee", dom.gi)
        top = None
        for c in order:
            if dom.check(fee == c) == "sat":
                top = c
                break
        if top is None:
            return
        for pc, _a, entries in res.trace:
            best[pc] = max(best.get(pc, -1), top)
            if any(e in multi for e in entries):
                inside[pc] = True

    def on_any(dom: sx.Z3Dom, res: ts.PathResult, _s: Any) -> None:
        st.paths += 1
        if res.cut:
            st.cut += 1

    try:
        ex, dom = sx.explore(prog, "FREE", ["Fee"], unroll, max_depth=FREE_DEPTH, on_accept=on_accept, on_any=on_any)
    except ts.Unsupported as e:
        st.skipped = f"unsupported opcode {e}"
        return [], st
    st.absorb(dom)
    st.nontrivial = True
    findings: List[Finding] = []
    for b in run.function.blocks:
        line = b.entry_instr.line
        pcs = [i.idx for i in prog.ins if i.line == line]
        if not pcs or pcs[0] not in best:
            continue
        pc = pcs[0]
        ctx = run.ctx(b)
        adm = best[pc]
        if ctx.max_fee_unknown:
            if ex.runtime_cmp_governed:
                continue
            findings.append(Finding(prop, "free:max_fee_unknown", src,
                                    f"block at line {line}: bound reported as 'unknown' although Fee is only compared with literal constants", None, None, line,
                                    "max_fee_unknown", True, True, {"admitted": adm}))
            continue
        if ctx.max_fee < adm:
            findings.append(Finding(prop, "free:max_fee", src,
                                    f"block at line {line}: fee {adm} is admitted by an accepting direct-check path but the reported bound is {ctx.max_fee}", None, None, line,
                                    "max_fee", ctx.max_fee, True, {"admitted": adm}))
        elif exact and not inside.get(pc) and ctx.max_fee != adm and not (ctx.max_fee == MAX_UINT64 and adm >= MAX_UINT64 - 1):
            # (the unbounded side of a comparison with 2^64-1 is reported as "no bound": not an inexactness
            #  of the bounded forms the property lists)
            findings.append(Finding(prop, "exact:max_fee", src,
                                    f"block at line {line}: single direct check implies the bound {adm}, reported {ctx.max_fee}", None, None, line,
                                    "max_fee", ctx.max_fee, True, {"admitted": adm}))
    return findings, st


# ---------------------------------------------------------------------------------------------
# FREE-mode converse for address fields (C08) and generic "dangerous value admitted" maps (C02, C03)
# ---------------------------------------------------------------------------------------------


def free_admits(prog: ts.Prog, governed: Sequence[str], danger: Callable[[sx.Z3Dom], Any], unroll: int, st: ProgStats,
                retsub_any: bool = False) -> Tuple[Dict[int, bool], Dict[int, bool], List[Tuple[Tuple[int, ...], bool]], Any]:
    """Direct-check reading with the given governed fields.

    -> (pc -> some accepting path through the block admits the dangerous value,
        pc -> block lies inside a subroutine (transitively) called from several sites,
        [(block-trace of an accepting path, admits?)], executor)"""
    admits: Dict[int, bool] = {}
    inside: Dict[int, bool] = {}
    paths: List[Tuple[Tuple[int, ...], bool]] = []
    multi = multi_site_subs(prog)

    def on_accept(dom: sx.Z3Dom, res: ts.PathResult, _s: Any) -> None:
        st.accepting += 1
        ok = dom.check(danger(dom)) == "sat"
        paths.append((tuple(e[0] for e in res.trace), ok))
        for pc, _a, entries in res.trace:
            admits[pc] = admits.get(pc, False) or ok
            if any(e in multi for e in entries):
                inside[pc] = True

    incomplete = [False]

    def on_any(dom: sx.Z3Dom, res: ts.PathResult, _s: Any) -> None:
        st.paths += 1
        if res.cut:
            st.cut += 1
            if res.cut != "loop":
                incomplete[0] = True

    ex, dom = sx.explore(prog, "FREE", list(governed), unroll, max_depth=FREE_DEPTH, retsub_any=retsub_any, on_accept=on_accept, on_any=on_any)
    st.absorb(dom)
    ex.incomplete = incomplete[0]  # type: ignore[attr-defined]
    return admits, inside, paths, ex


def check_addr_free(src: str, prop: str = "C08", unroll: int = 2, run: Optional[Run] = None) -> Tuple[List[Finding], ProgStats]:
    """If no accepting direct-check path through a block admits an unnamed address for the field
    (it is pinned to named addresses / zero on all of them), the block must not say 'any address'."""
    st = ProgStats()
    prog = ts.tokenize(src)
    t0 = time.time()
    if run is None:
        run = Run(src, detectors=[])
    st.tealer_s = time.time() - t0
    findings: List[Finding] = []
    fields = [f for f in ts.ADDR_FIELDS if any(f in ins.args for ins in prog.ins)]
    try:
        for fname in fields:
            admits, inside, _paths, _ex = free_admits(prog, [fname], lambda d, fname=fname: d.field(fname, d.gi) == ts.ADDR_ATT, unroll, st)
            st.nontrivial = True
            if _ex.incomplete:
                continue
            for b in run.function.blocks:
                line = b.entry_instr.line
                pcs = [i.idx for i in prog.ins if i.line == line]
                if not pcs or pcs[0] not in admits:
                    continue
                pc = pcs[0]
                val = getattr(run.ctx(b), cl.ADDR_CTX_ATTR[fname])
                if not admits[pc] and not inside.get(pc) and val.any_addr:
                    findings.append(Finding(prop, f"converse:{cl.ADDR_CTX_ATTR[fname]}", src,
                                            f"block at line {line}: {fname} is pinned to named addresses on every accepting direct-check path through the block but is reported as 'any address'",
                                            None, None, line, cl.ADDR_CTX_ATTR[fname], {"any": True}, True))
    except ts.Unsupported as e:
        st.skipped = f"unsupported opcode {e}"
        return [], st
    return findings, st


# ---------------------------------------------------------------------------------------------
# detectors: C01 (EXACT, must report), C03 (FREE, must not report), C02 (excluded blocks)
# ---------------------------------------------------------------------------------------------

MAX_COST = 272000


def _d_te(d: Any, v: int) -> Any:
    return d.field("TypeEnum", d.gi) == v


def _d_oc(d: Any, v: int) -> Any:
    return z3.And(d.field("TypeEnum", d.gi) == 6, d.field("OnCompletion", d.gi) == v)


def _d_addr(d: Any, f: str) -> Any:
    return d.field(f, d.gi) == ADDR_ATT


# detector -> list of (governed fields of the projection, danger formula of that projection)
DETECTOR_PROJECTIONS: Dict[str, List[Tuple[List[str], Callable[[Any], Any]]]] = {
    "rekey-to": [(["RekeyTo"], lambda d: _d_addr(d, "RekeyTo"))],
    "can-close-account": [(["CloseRemainderTo"], lambda d: _d_addr(d, "CloseRemainderTo")), (["TypeEnum", "OnCompletion", "ApplicationID"], lambda d: _d_te(d, 1))],
    "can-close-asset": [(["AssetCloseTo"], lambda d: _d_addr(d, "AssetCloseTo")), (["TypeEnum", "OnCompletion", "ApplicationID"], lambda d: _d_te(d, 4))],
    "missing-fee-check": [(["Fee"], lambda d: d.field("Fee", d.gi) > MAX_COST)],
    "is-updatable": [(["TypeEnum", "OnCompletion", "ApplicationID"], lambda d: _d_oc(d, 4))],
    "is-deletable": [(["TypeEnum", "OnCompletion", "ApplicationID"], lambda d: _d_oc(d, 5))],
    "unprotected-updatable": [(["TypeEnum", "OnCompletion", "ApplicationID"], lambda d: _d_oc(d, 4)), (["Sender"], lambda d: _d_addr(d, "Sender"))],
    "unprotected-deletable": [(["TypeEnum", "OnCompletion", "ApplicationID"], lambda d: _d_oc(d, 5)), (["Sender"], lambda d: _d_addr(d, "Sender"))],
    "group-size-check": [(["GroupSize"], lambda d: d.gs == MAX_GROUP)],
}


def danger_exact(det: str, d: Any) -> Any:
    return z3.And(*[f(d) for _, f in DETECTOR_PROJECTIONS[det]])


def danger_concrete(det: str, model: Dict[str, Any]) -> bool:
    gi = str(model["gi"])

    def fld(f: str) -> int:
        return int(model["fields"].get(f, {}).get(gi, 0))

    te, oc = fld("TypeEnum"), fld("OnCompletion")
    return {
        "rekey-to": fld("RekeyTo") == ADDR_ATT,
        "can-close-account": te == 1 and fld("CloseRemainderTo") == ADDR_ATT,
        "can-close-asset": te == 4 and fld("AssetCloseTo") == ADDR_ATT,
        "missing-fee-check": fld("Fee") > MAX_COST,
        "is-updatable": te == 6 and oc == 4,
        "is-deletable": te == 6 and oc == 5,
        "unprotected-updatable": te == 6 and oc == 4 and fld("Sender") == ADDR_ATT,
        "unprotected-deletable": te == 6 and oc == 5 and fld("Sender") == ADDR_ATT,
        "group-size-check": model["gs"] == MAX_GROUP,
    }[det]


ADDR_FEE_DETECTORS = ("rekey-to", "can-close-account", "can-close-asset", "missing-fee-check", "unprotected-updatable", "unprotected-deletable")


def check_must_report(src: str, prop: str = "C01", unroll: int = 2, run: Optional[Run] = None,
                      detectors: Optional[Sequence[str]] = None) -> Tuple[List[Finding], ProgStats]:
    """C01: an approvable execution with the dangerous value exists (EXACT semantics) => the detector reports a path."""
    st = ProgStats()
    prog = ts.tokenize(src)
    dets = list(detectors or DETECTOR_PROJECTIONS)
    t0 = time.time()
    if run is None:
        run = Run(src, detectors=dets)
    st.tealer_s = time.time() - t0
    silent = [d for d in dets if not run.paths[d]]
    witness: Dict[str, Tuple[Dict[str, Any], List[Tuple]]] = {}

    def on_accept(dom: sx.Z3Dom, res: ts.PathResult, _s: Any) -> None:
        st.accepting += 1
        for det in silent:
            if det in witness:
                continue
            if det == "group-size-check" and not res.abs_reads:
                continue
            dom.push()
            dom.add(danger_exact(det, dom))
            if dom.check() == "sat":
                witness[det] = (dom.extract_model(), list(res.trace))
            dom.pop()

    def on_any(dom: sx.Z3Dom, res: ts.PathResult, _s: Any) -> None:
        st.paths += 1
        if res.cut:
            st.cut += 1

    try:
        ex, dom = sx.explore(prog, "EXACT", None, unroll, on_accept=on_accept, on_any=on_any)
    except ts.Unsupported as e:
        st.skipped = f"unsupported opcode {e}"
        return [], st
    st.absorb(dom)
    st.nontrivial = st.accepting > 0
    findings: List[Finding] = []
    for det, (model, trace) in witness.items():
        if ex.runtime_cmp_governed and det in ADDR_FEE_DETECTORS:
            continue  # governed address/fee field compared with a run-time value: outside the claim
        f = Finding(prop, "must-report:" + det, src,
                    f"{det}: an execution (gs={model['gs']}, gi={model['gi']}) with the dangerous value is approved along lines {_lines(prog, trace)} but the detector reports no path",
                    model, _lines(prog, trace), None, det, {"paths": []})
        rep = sx.replay(prog, model, "EXACT", None, unroll)
        if rep.accepted and [e[0] for e in rep.trace] == [e[0] for e in trace] and danger_concrete(det, model):
            if det != "group-size-check" or rep.abs_reads:
                # re-read tealer's verdict from a fresh run
                fresh = Run(src, detectors=[det])
                f.replayed = not fresh.paths[det]
        findings.append(f)
    return findings, st


class FreeDetectorView:
    """Direct-check reading of a program for every detector (shared by C02 and C03)."""

    def __init__(self, src: str, unroll: int = 2, detectors: Optional[Sequence[str]] = None):
        self.prog = ts.tokenize(src)
        self.st = ProgStats()
        self.cache: Dict[Tuple[Tuple[str, ...], str, bool], Any] = {}
        self.unroll = unroll
        self.dets = list(detectors or DETECTOR_PROJECTIONS)
        self.abs_paths: Optional[set] = None

    def projection(self, det: str, i: int, retsub_any: bool = False) -> Any:
        gov, danger = DETECTOR_PROJECTIONS[det][i]
        if gov != ["GroupSize"]:
            # the governed transaction's field may also be checked through `gtxn i f` / `int i; gtxns f` together with a
            # direct check of `txn GroupIndex`: reads by absolute index and GroupIndex comparisons are interpreted too
            gov = list(gov) + [("abs", k, f) for f in gov for k in range(MAX_GROUP)] + ["GroupIndex"]
        key = (tuple(gov), f"{det}#{i}" if det.startswith(("is-", "unprotected")) or "close" in det else det + str(i), retsub_any)
        if key not in self.cache:
            self.cache[key] = free_admits(self.prog, gov, danger, self.unroll, self.st, retsub_any)
        return self.cache[key]

    def incomplete(self, det: str) -> bool:
        return any(self.projection(det, i)[3].incomplete for i in range(len(DETECTOR_PROJECTIONS[det])))

    def dangerous_traces(self, det: str) -> set:
        """Block traces of accepting direct-check paths on which every projection admits the dangerous value."""
        sets = []
        for i in range(len(DETECTOR_PROJECTIONS[det])):
            _adm, _ins, paths, _ex = self.projection(det, i)
            sets.append({tr for tr, ok in paths if ok})
        out = set.intersection(*sets) if sets else set()
        if det == "group-size-check":
            out = {tr for tr in out if self._has_abs_read(tr)}
        return out

    def _has_abs_read(self, trace: Tuple[int, ...]) -> bool:
        """Some block of the trace reads by absolute index (syntactic, as the property states)."""
        p = self.prog
        start = ts.block_start_of(p)
        blocks = set(trace)
        for ins in p.ins:
            if start[ins.idx] not in blocks:
                continue
            if ins.op in ("gtxn", "gtxna", "gtxnas"):
                return True
            if ins.op in ("gtxns", "gtxnsa", "gtxnsas"):
                # index operand pushed by the directly preceding constant instruction in the same block
                j = ins.idx - 1
                if ins.op == "gtxnsas":
                    continue
                if j >= 0 and start[j] == start[ins.idx] and p.ins[j].op in ("int", "pushint", "intc", "intc_0", "intc_1", "intc_2", "intc_3"):
                    return True
        return False


def check_must_not_report(src: str, prop: str = "C03", unroll: int = 2, run: Optional[Run] = None,
                          detectors: Optional[Sequence[str]] = None) -> Tuple[List[Finding], ProgStats]:
    """C03: no accepting direct-check path carries the dangerous value (fields read independently) => no report."""
    dets = list(detectors or DETECTOR_PROJECTIONS)
    t0 = time.time()
    if run is None:
        run = Run(src, detectors=dets)
    view = FreeDetectorView(src, unroll, dets)
    view.st.tealer_s = time.time() - t0
    findings: List[Finding] = []
    try:
        for det in dets:
            if not run.paths[det]:
                continue
            view.st.nontrivial = True
            if not view.dangerous_traces(det) and not view.incomplete(det):
                p0 = run.paths[det][0]
                findings.append(Finding(prop, "must-not-report:" + det, src,
                                        f"{det}: every accepting direct-check path excludes the dangerous value, but {len(run.paths[det])} path(s) are reported, e.g. "
                                        + " -> ".join(str(b.idx) for b in p0), None, [b.entry_instr.line for b in p0], None, det,
                                        {"paths": [[b.idx for b in p] for p in run.paths[det][:5]]}, True))
    except ts.Unsupported as e:
        view.st.skipped = f"unsupported opcode {e}"
        return [], view.st
    return findings, view.st
