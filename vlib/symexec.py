"""z3 instance of the TEAL fragment semantics (engine S) and model extraction / replay."""
from __future__ import annotations

import time
from typing import Any, Callable, Dict, List, Optional, Sequence, Tuple

import z3

from vlib import smtdump
from vlib import tealsem as ts
from vlib.tealsem import (
    ADDR_ATT,
    ADDR_FIELDS,
    ADDR_ZERO,
    GOVERNED,
    INT_FIELDS,
    MAX_GROUP,
    MAX_UINT64,
    ConcreteDom,
    Executor,
    PathResult,
    Prog,
)


class Stats:
    def __init__(self) -> None:
        self.sat = 0
        self.unsat = 0
        self.unknown = 0
        self.time = 0.0

    def add(self, other: "Stats") -> None:
        self.sat += other.sat
        self.unsat += other.unsat
        self.unknown += other.unknown
        self.time += other.time

    def as_dict(self) -> Dict[str, Any]:
        return {"sat": self.sat, "unsat": self.unsat, "unknown": self.unknown, "solver_s": round(self.time, 3)}


class Z3Dom:
    symbolic = True

    def __init__(self, n_addr: int, mode: str = "EXACT", wellformed: bool = True, timeout_ms: int = 20000):
        self.solver = z3.Solver()
        self.solver.set("timeout", timeout_ms)
        self.stats = Stats()
        self.n_addr = n_addr
        self.gs = z3.Int("gs")
        self.gi = z3.Int("gi")
        self.funcs: Dict[str, z3.FuncDeclRef] = {}
        self.fresh_vars: Dict[str, z3.ArithRef] = {}
        self.globals: Dict[str, z3.ArithRef] = {}
        self.mode = mode
        self.wellformed = wellformed
        s = self.solver
        s.add(self.gs >= 1, self.gs <= MAX_GROUP)
        if mode == "EXACT":
            s.add(self.gi >= 0, self.gi < self.gs)
        else:
            s.add(self.gi >= 0, self.gi < MAX_GROUP)
        self.unknown_seen = False
        self.declared: set = set()

    def view(self, gi_term: Any, tag: str) -> "Z3Dom":
        """A second executing transaction in the same group: shares the solver, the group and all field
        functions, but runs at slot ``gi_term`` and names its fresh values with ``tag``."""
        import copy

        v = copy.copy(self)
        v.gi = gi_term
        v.tag = tag
        return v

    # -- terms ------------------------------------------------------------------------------
    def const(self, n: int) -> z3.ArithRef:
        return z3.IntVal(n)

    def _range(self, name: str, t: Any) -> List[Any]:
        if name in ADDR_FIELDS or name in ts.OTHER_ADDR_FIELDS:
            return [t >= 0, t < self.n_addr]
        if name == "TypeEnum" and self.mode == "EXACT" and self.wellformed:
            return [t >= 1, t <= 6]
        if name == "OnCompletion" and self.mode == "EXACT" and self.wellformed:
            return [t >= 0, t <= 5]
        return [t >= 0, t <= MAX_UINT64]

    def _func(self, name: str) -> z3.FuncDeclRef:
        f = self.funcs.get(name)
        if f is None:
            f = z3.Function("F_" + name, z3.IntSort(), z3.IntSort())
            self.funcs[name] = f
        return f

    def declare_all(self, names: Sequence[str]) -> None:
        """Declare field functions (and their range / well-formedness facts) before exploration."""
        for n in names:
            f = self._func(n)
            self.declared.add(n)
            for i in range(MAX_GROUP):
                self.solver.add(*self._range(n, f(i)))
        if self.mode == "EXACT" and self.wellformed:
            te, oc, ai = self._func("TypeEnum"), self._func("OnCompletion"), self._func("ApplicationID")
            crt, act = self._func("CloseRemainderTo"), self._func("AssetCloseTo")
            for i in range(MAX_GROUP):
                # fields of another transaction type are zero
                self.solver.add(z3.Implies(te(i) != 6, z3.And(oc(i) == 0, ai(i) == 0)))
                self.solver.add(z3.Implies(te(i) != 1, crt(i) == ADDR_ZERO))
                self.solver.add(z3.Implies(te(i) != 4, act(i) == ADDR_ZERO))
                # assumption (removes executions only): an application creation call is NoOp or OptIn
                self.solver.add(z3.Implies(z3.And(te(i) == 6, ai(i) == 0), oc(i) <= 1))

    def field(self, name: str, slot: Any) -> z3.ArithRef:
        t = self._func(name)(slot)
        if name not in self.declared:
            # lazily used field: assert its range for this read in the current frame
            self.solver.add(*self._range(name, t))
        return t

    def fresh(self, key: str, lo: int = 0, hi: int = MAX_UINT64) -> z3.ArithRef:
        key = getattr(self, "tag", "") + key
        v = self.fresh_vars.get(key)
        if v is None:
            v = z3.Int("fr!" + key)
            self.fresh_vars[key] = v
        # (re)assert the range in the current frame: harmless duplicates, needed after pops
        self.solver.add(v >= lo, v <= hi)
        return v

    def glob(self, name: str) -> z3.ArithRef:
        v = self.globals.get(name)
        if v is None:
            v = z3.Int("gl!" + name)
            self.globals[name] = v
        self.solver.add(v >= 0, v <= MAX_UINT64)
        return v

    # -- booleans ---------------------------------------------------------------------------
    @staticmethod
    def ite(c: Any, a: Any, b: Any) -> Any:
        return z3.If(c, a, b)

    @staticmethod
    def and_(*xs: Any) -> Any:
        return z3.And(*xs)

    @staticmethod
    def or_(*xs: Any) -> Any:
        return z3.Or(*xs)

    @staticmethod
    def not_(x: Any) -> Any:
        return z3.Not(x)

    @staticmethod
    def eq(a: Any, b: Any) -> Any:
        return a == b

    # -- solver -----------------------------------------------------------------------------
    def push(self) -> None:
        self.solver.push()

    def pop(self) -> None:
        self.solver.pop()

    def add(self, c: Any) -> None:
        self.solver.add(c)

    def check(self, *extra: Any) -> str:
        t0 = time.time()
        r = self.solver.check(*extra)
        self.stats.time += time.time() - t0
        rs = str(r)
        if rs == "sat":
            self.stats.sat += 1
        elif rs == "unsat":
            self.stats.unsat += 1
        else:
            self.stats.unknown += 1
            self.unknown_seen = True
        smtdump.maybe_dump(self.solver, extra, rs)
        return rs

    def feasible(self) -> bool:
        # unknown is treated as feasible for exploration (and recorded): never prunes a real path
        return self.check() != "unsat"

    # -- models -----------------------------------------------------------------------------
    def extract_model(self) -> Dict[str, Any]:
        m = self.solver.model()

        def ev(t: Any) -> int:
            return m.eval(t, model_completion=True).as_long()

        out: Dict[str, Any] = {"gs": ev(self.gs), "gi": ev(self.gi), "fields": {}, "fresh": {}, "globals": {}}
        for name, f in self.funcs.items():
            out["fields"][name] = {str(i): ev(f(i)) for i in range(MAX_GROUP)}
        for key, v in self.fresh_vars.items():
            out["fresh"][key] = ev(v)
        for key, v in self.globals.items():
            out["globals"][key] = ev(v)
        return out


ALL_FIELD_FUNCS = list(GOVERNED)


def explore(
    prog: Prog,
    mode: str = "EXACT",
    governed: Optional[Sequence[str]] = None,
    unroll: int = 2,
    max_depth: int = 3,
    fuel: int = 400,
    retsub_any: bool = False,
    prefix: Optional[List[int]] = None,
    on_accept: Optional[Callable[[Z3Dom, PathResult, Any], None]] = None,
    on_any: Optional[Callable[[Z3Dom, PathResult, Any], None]] = None,
    wellformed: bool = True,
    extra_setup: Optional[Callable[[Z3Dom], None]] = None,
    prefix_early_exit_ok: bool = False,
) -> Tuple[Executor, Z3Dom]:
    """Depth-first symbolic exploration.  Callbacks run while the solver holds the path condition."""
    n_addr = ts.ADDR_FIRST_LITERAL + len([v for v in ts.address_table(prog).values() if v >= ts.ADDR_FIRST_LITERAL])
    dom = Z3Dom(n_addr, mode, wellformed)
    dom.declare_all(ALL_FIELD_FUNCS)
    if extra_setup is not None:
        extra_setup(dom)
    ex = Executor(prog, dom, mode, governed, unroll, max_depth, fuel, retsub_any, prefix, prefix_early_exit_ok=prefix_early_exit_ok)

    def cb(res: PathResult, st: Any) -> None:
        if on_any is not None:
            on_any(dom, res, st)
        if res.accepted and on_accept is not None:
            on_accept(dom, res, st)

    ex.on_path = cb
    ex.run()
    return ex, dom


def replay(prog: Prog, model: Dict[str, Any], mode: str = "EXACT", governed: Optional[Sequence[str]] = None,
           unroll: int = 2, max_depth: int = 3, fuel: int = 400, retsub_any: bool = False) -> PathResult:
    """Run the concrete instance of the same semantics on a model; returns the single path."""
    dom = ConcreteDom(model)
    ex = Executor(prog, dom, mode, governed, unroll, max_depth, fuel, retsub_any, None)
    ex.run()
    assert len(ex.results) >= 1
    # concrete runs are deterministic except for FREE-mode `match` / retsub_any, which fan out
    return ex.results[0]
