"""Sampling dump of solver queries (SMT-LIB text + the answer of the z3 Python API) for the two-more-solvers diff.

Active only when VERIF_SMT_DUMP names a directory (set by the thorough tier before the workers fork).
Every VERIF_SMT_DUMP_EVERY-th query of a process is written, at most VERIF_SMT_DUMP_MAX per process."""
from __future__ import annotations

import os
from typing import Any, Sequence

_count = 0
_written = 0


def maybe_dump(solver: Any, extra: Sequence[Any], answer: str) -> None:
    d = os.environ.get("VERIF_SMT_DUMP")
    if not d or answer not in ("sat", "unsat"):
        return
    global _count, _written  # pylint: disable=global-statement
    _count += 1
    every = int(os.environ.get("VERIF_SMT_DUMP_EVERY", "97"))
    if _count % every != 1 or _written >= int(os.environ.get("VERIF_SMT_DUMP_MAX", "40")):
        return
    try:
        import z3

        s2 = z3.Solver()
        s2.add(solver.assertions())
        for e in extra:
            s2.add(e)
        text = s2.to_smt2()
        _written += 1
        with open(os.path.join(d, f"{os.getpid()}_{_count}.smt2"), "w") as f:
            f.write(f"; expected: {answer}\n" + text)
    except Exception:  # pylint: disable=broad-except
        pass
