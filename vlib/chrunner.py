"""Engine K runner: CrossHair (symbolic execution of the real tealer functions with z3).

A harness module is plain Python text with PEP-316 contracts.  For every harness function ``f``
(`pre:` lines = the stated bound, `post: _`) the runner

* generates a reachability twin ``f__twin`` (same preconditions, ``post: False`` after calling f),
* runs ``crosshair check --report_all --per_condition_timeout T module.py:LINE`` as one OS process per
  condition, 16 at a time,
* maps the output to confirmed / refuted / inconclusive,
* replays every counterexample natively (plain interpreter, no tracer) before believing it.
"""
from __future__ import annotations

import ast
import concurrent.futures
import importlib.util
import os
import re
import subprocess
import sys
import time
from dataclasses import dataclass, field
from typing import Any, Dict, List, Optional, Tuple

VERIF = os.path.dirname(os.path.dirname(os.path.abspath(__file__)))
WORK = os.path.join(VERIF, ".work")
CROSSHAIR = os.path.join(VERIF, ".venv", "bin", "crosshair")


@dataclass
class KResult:
    name: str
    verdict: str  # confirmed | refuted | inconclusive | vacuous | unavailable | harness_error
    detail: str = ""
    call: str = ""  # counterexample call text
    replayed: Optional[bool] = None
    seconds: float = 0.0
    twin: str = ""  # reachable | vacuous | inconclusive
    meta: Dict[str, Any] = field(default_factory=dict)


_TWIN_TMPL = '''

def {name}__twin({params}) -> bool:
    """
{pre}
    post: not _
    """
    {name}({args})
    return True
'''


def add_twins(text: str) -> Tuple[str, Dict[str, Dict[str, Any]]]:
    """Append a reachability twin for every harness function; return new text and function table."""
    tree = ast.parse(text)
    table: Dict[str, Dict[str, Any]] = {}
    extra = []
    for node in tree.body:
        if isinstance(node, ast.FunctionDef) and node.name.startswith("k_"):
            doc = ast.get_docstring(node, clean=False) or ""
            if "post:" not in doc:
                continue
            pre_lines = [l.rstrip() for l in doc.splitlines() if l.strip().startswith("pre:")]
            params = ", ".join(f"{a.arg}: {ast.unparse(a.annotation)}" for a in node.args.args)
            args = ", ".join(a.arg for a in node.args.args)
            extra.append(
                _TWIN_TMPL.format(
                    name=node.name,
                    params=params,
                    pre="\n".join("    " + l.strip() for l in pre_lines),
                    args=args,
                )
            )
            table[node.name] = {"params": [a.arg for a in node.args.args]}
    new_text = text + "".join(extra)
    tree2 = ast.parse(new_text)
    for node in tree2.body:
        if isinstance(node, ast.FunctionDef):
            base = node.name[: -len("__twin")] if node.name.endswith("__twin") else node.name
            if base in table:
                key = "twin_line" if node.name.endswith("__twin") else "line"
                table[base][key] = node.body[0].lineno if node.body else node.lineno
    return new_text, table


_RE_FALSE = re.compile(r"error: false when calling (.*?)(?: \(which returns .*\))?$")
_RE_EXC = re.compile(r"error: (\w+(?:\.\w+)*): ?(.*?) when calling (.*?)$")
_RE_EXC2 = re.compile(r"error: (\w+(?:\.\w+)*) when calling (.*?)$")


def _run_one(path: str, line: int, timeout: int) -> Tuple[str, str, float]:
    t0 = time.time()
    env = dict(os.environ, PYTHONHASHSEED="0")
    try:
        r = subprocess.run(
            [CROSSHAIR, "check", "--report_all", "--per_condition_timeout", str(timeout), f"{path}:{line}"],
            capture_output=True,
            text=True,
            timeout=timeout * 3 + 60,
            env=env,
            cwd=os.path.dirname(path),
        )
        out = r.stdout + r.stderr
    except subprocess.TimeoutExpired:
        return "timeout", "", time.time() - t0
    return "done", out, time.time() - t0


def _classify(out: str) -> Tuple[str, str, str]:
    """-> (verdict, detail, call)"""
    for l in out.splitlines():
        if "Confirmed over all paths" in l:
            return "confirmed", "", ""
    for l in out.splitlines():
        m = _RE_FALSE.search(l)
        if m:
            return "refuted", "false", m.group(1).strip()
        m = _RE_EXC.search(l)
        if m:
            return "refuted", f"{m.group(1)}: {m.group(2)}", m.group(3).strip()
        m = _RE_EXC2.search(l)
        if m:
            return "refuted", m.group(1), m.group(2).strip()
    for l in out.splitlines():
        if "Not confirmed" in l or "Unable to meet precondition" in l:
            return "inconclusive", l.split("info:")[-1].strip(), ""
    return "inconclusive", out.strip()[-300:], ""


def load_module(path: str) -> Any:
    name = "kmod_" + os.path.basename(path)[:-3]
    spec = importlib.util.spec_from_file_location(name, path)
    assert spec and spec.loader
    mod = importlib.util.module_from_spec(spec)
    sys.modules[name] = mod
    spec.loader.exec_module(mod)
    return mod


def native_replay(mod: Any, call: str) -> Tuple[bool, str]:
    """Run the printed counterexample call natively; True iff the harness really fails on it."""
    try:
        val = eval(call, dict(vars(mod)))  # noqa: S307  pylint: disable=eval-used
    except Exception as e:  # pylint: disable=broad-except
        return True, f"raises {type(e).__name__}: {e}"
    return (val is False or val == False), f"returns {val!r}"  # noqa: E712


def run_module(text: str, modname: str, timeout: int = 30, jobs: int = 16, only: Optional[List[str]] = None) -> List[KResult]:
    os.makedirs(WORK, exist_ok=True)
    full, table = add_twins(text)
    path = os.path.join(WORK, modname + ".py")
    with open(path, "w") as f:
        f.write(full)
    # import natively first: a harness whose tealer symbols are missing is "unavailable", not failed
    try:
        mod = load_module(path)
    except Exception as e:  # pylint: disable=broad-except
        return [KResult(modname, "unavailable", f"harness module does not import on this tree: {type(e).__name__}: {e}")]
    unavailable = getattr(mod, "UNAVAILABLE", {})
    names = [n for n in table if (only is None or n in only)]
    results: Dict[str, KResult] = {}
    tasks = []
    with concurrent.futures.ThreadPoolExecutor(max_workers=jobs) as pool:
        for n in names:
            if n in unavailable or "*" in unavailable:
                results[n] = KResult(n, "unavailable", unavailable.get(n, unavailable.get("*", "")))
                continue
            tasks.append((n, "main", pool.submit(_run_one, path, table[n]["line"], timeout)))
            tasks.append((n, "twin", pool.submit(_run_one, path, table[n]["twin_line"], min(timeout, 20))))
        for n, kind, fut in tasks:
            status, out, secs = fut.result()
            r = results.setdefault(n, KResult(n, "inconclusive"))
            if kind == "main":
                r.seconds = secs
                if status == "timeout":
                    r.verdict, r.detail = "inconclusive", "process timeout"
                else:
                    r.verdict, r.detail, r.call = _classify(out)
            else:
                if status == "timeout":
                    r.twin = "inconclusive"
                else:
                    v, d, _ = _classify(out)
                    r.twin = "reachable" if (v == "refuted" and d == "false") else ("vacuous" if v == "confirmed" else "inconclusive")
    for n, r in results.items():
        r.meta = getattr(mod, "META", {}).get(n, {})
        if r.verdict == "refuted":
            call = r.call
            ok, how = native_replay(mod, call)
            r.replayed = ok
            r.detail += " | native: " + how
            if not ok:
                r.verdict = "harness_error"
            elif re.search(r"raises (AttributeError|ImportError|NameError): .*(has no attribute|cannot import name|is not defined)", how):
                # a private tealer symbol the harness resolves by name no longer exists: the kernel is
                # not applicable on this tree (the S/G checks keep deciding the property)
                r.verdict = "unavailable"
                r.detail = "symbol missing on this tree: " + how
        if r.verdict == "confirmed" and r.twin == "vacuous":
            r.verdict = "vacuous"
    return [results[n] for n in names]
