"""Independent AVM opcode table (TEAL v1-v8), written from the AVM specification, not from tealer.

Each row: opcode -> (introduction version, mode, pops, pushes, cost) where
  mode  : "any" | "sig" (LogicSig only) | "app" (application only)
  pops / pushes : ints, or a string naming how they depend on the immediates (see ``stack_effect``)
  cost  : int, or a dict version -> cost for opcodes whose cost changed, or a callable-like tag.
The table is cross-checked at run time against pyteal's Op / TxnField / GlobalField tables (installed
in /venv, independent of tealer); rows on which the two disagree are left out of the claim and listed.
"""
from __future__ import annotations

from typing import Any, Dict, List, Optional, Tuple

A, S, P = "any", "sig", "app"

# name: (version, mode, pops, pushes, cost)
OPS: Dict[str, Tuple[int, str, Any, Any, Any]] = {
    # ---- v1 -------------------------------------------------------------------------------
    "err": (1, A, 0, 0, 1),
    "sha256": (1, A, 1, 1, {1: 7, 2: 35}),
    "keccak256": (1, A, 1, 1, {1: 26, 2: 130}),
    "sha512_256": (1, A, 1, 1, {1: 9, 2: 45}),
    "ed25519verify": (1, A, 3, 1, 1900),
    "+": (1, A, 2, 1, 1), "-": (1, A, 2, 1, 1), "/": (1, A, 2, 1, 1), "*": (1, A, 2, 1, 1),
    "<": (1, A, 2, 1, 1), ">": (1, A, 2, 1, 1), "<=": (1, A, 2, 1, 1), ">=": (1, A, 2, 1, 1),
    "&&": (1, A, 2, 1, 1), "||": (1, A, 2, 1, 1), "==": (1, A, 2, 1, 1), "!=": (1, A, 2, 1, 1),
    "!": (1, A, 1, 1, 1), "len": (1, A, 1, 1, 1), "itob": (1, A, 1, 1, 1), "btoi": (1, A, 1, 1, 1),
    "%": (1, A, 2, 1, 1), "|": (1, A, 2, 1, 1), "&": (1, A, 2, 1, 1), "^": (1, A, 2, 1, 1), "~": (1, A, 1, 1, 1),
    "mulw": (1, A, 2, 2, 1),
    "intcblock": (1, A, 0, 0, 1), "intc": (1, A, 0, 1, 1),
    "intc_0": (1, A, 0, 1, 1), "intc_1": (1, A, 0, 1, 1), "intc_2": (1, A, 0, 1, 1), "intc_3": (1, A, 0, 1, 1),
    "bytecblock": (1, A, 0, 0, 1), "bytec": (1, A, 0, 1, 1),
    "bytec_0": (1, A, 0, 1, 1), "bytec_1": (1, A, 0, 1, 1), "bytec_2": (1, A, 0, 1, 1), "bytec_3": (1, A, 0, 1, 1),
    "arg": (1, S, 0, 1, 1), "arg_0": (1, S, 0, 1, 1), "arg_1": (1, S, 0, 1, 1), "arg_2": (1, S, 0, 1, 1), "arg_3": (1, S, 0, 1, 1),
    "txn": (1, A, 0, 1, 1), "global": (1, A, 0, 1, 1), "gtxn": (1, A, 0, 1, 1),
    "load": (1, A, 0, 1, 1), "store": (1, A, 1, 0, 1),
    "bnz": (1, A, 1, 0, 1), "pop": (1, A, 1, 0, 1), "dup": (1, A, 1, 2, 1),
    # pseudo-ops of the assembler
    "int": (1, A, 0, 1, 1), "byte": (1, A, 0, 1, 1), "addr": (1, A, 0, 1, 1), "method": (1, A, 0, 1, 1),
    # ---- v2 -------------------------------------------------------------------------------
    "addw": (2, A, 2, 2, 1), "txna": (2, A, 0, 1, 1), "gtxna": (2, A, 0, 1, 1),
    "bz": (2, A, 1, 0, 1), "b": (2, A, 0, 0, 1), "return": (2, A, 1, 0, 1),
    "dup2": (2, A, 2, 4, 1), "concat": (2, A, 2, 1, 1), "substring": (2, A, 1, 1, 1), "substring3": (2, A, 3, 1, 1),
    "balance": (2, P, 1, 1, 1), "app_opted_in": (2, P, 2, 1, 1),
    "app_local_get": (2, P, 2, 1, 1), "app_local_get_ex": (2, P, 3, 2, 1),
    "app_global_get": (2, P, 1, 1, 1), "app_global_get_ex": (2, P, 2, 2, 1),
    "app_local_put": (2, P, 3, 0, 1), "app_global_put": (2, P, 2, 0, 1),
    "app_local_del": (2, P, 2, 0, 1), "app_global_del": (2, P, 1, 0, 1),
    "asset_holding_get": (2, P, 2, 2, 1), "asset_params_get": (2, P, 1, 2, 1),
    # ---- v3 -------------------------------------------------------------------------------
    "assert": (3, A, 1, 0, 1), "dig": (3, A, "dig", "dig", 1), "swap": (3, A, 2, 2, 1), "select": (3, A, 3, 1, 1),
    "getbit": (3, A, 2, 1, 1), "setbit": (3, A, 3, 1, 1), "getbyte": (3, A, 2, 1, 1), "setbyte": (3, A, 3, 1, 1),
    "min_balance": (3, P, 1, 1, 1), "pushbytes": (3, A, 0, 1, 1), "pushint": (3, A, 0, 1, 1),
    "gtxns": (3, A, 1, 1, 1), "gtxnsa": (3, A, 1, 1, 1),
    # ---- v4 -------------------------------------------------------------------------------
    "callsub": (4, A, 0, 0, 1), "retsub": (4, A, 0, 0, 1),
    "shl": (4, A, 2, 1, 1), "shr": (4, A, 2, 1, 1), "sqrt": (4, A, 1, 1, 4), "bitlen": (4, A, 1, 1, 1),
    "exp": (4, A, 2, 1, 1), "expw": (4, A, 2, 2, 10), "divmodw": (4, A, 4, 4, 20),
    "gload": (4, P, 0, 1, 1), "gloads": (4, P, 1, 1, 1), "gaid": (4, P, 0, 1, 1), "gaids": (4, P, 1, 1, 1),
    "bzero": (4, A, 1, 1, 1),
    "b+": (4, A, 2, 1, 10), "b-": (4, A, 2, 1, 10), "b/": (4, A, 2, 1, 20), "b*": (4, A, 2, 1, 20),
    "b<": (4, A, 2, 1, 1), "b>": (4, A, 2, 1, 1), "b<=": (4, A, 2, 1, 1), "b>=": (4, A, 2, 1, 1),
    "b==": (4, A, 2, 1, 1), "b!=": (4, A, 2, 1, 1), "b%": (4, A, 2, 1, 20),
    "b|": (4, A, 2, 1, 6), "b&": (4, A, 2, 1, 6), "b^": (4, A, 2, 1, 6), "b~": (4, A, 1, 1, 4),
    # ---- v5 -------------------------------------------------------------------------------
    "ecdsa_verify": (5, A, 5, 1, "ecdsa_verify"), "ecdsa_pk_decompress": (5, A, 1, 2, "ecdsa_pk_decompress"),
    "ecdsa_pk_recover": (5, A, 4, 2, 2000),
    "loads": (5, A, 1, 1, 1), "stores": (5, A, 2, 0, 1),
    "cover": (5, A, "cover", "cover", 1), "uncover": (5, A, "cover", "cover", 1),
    "extract": (5, A, 1, 1, 1), "extract3": (5, A, 3, 1, 1),
    "extract_uint16": (5, A, 2, 1, 1), "extract_uint32": (5, A, 2, 1, 1), "extract_uint64": (5, A, 2, 1, 1),
    "app_params_get": (5, P, 1, 2, 1), "log": (5, P, 1, 0, 1),
    "itxn_begin": (5, P, 0, 0, 1), "itxn_field": (5, P, 1, 0, 1), "itxn_submit": (5, P, 0, 0, 1),
    "itxn": (5, P, 0, 1, 1), "itxna": (5, P, 0, 1, 1),
    "txnas": (5, A, 1, 1, 1), "gtxnas": (5, A, 1, 1, 1), "gtxnsas": (5, A, 2, 1, 1), "args": (5, S, 1, 1, 1),
    # ---- v6 -------------------------------------------------------------------------------
    "bsqrt": (6, A, 1, 1, 40), "divw": (6, A, 3, 1, 1), "acct_params_get": (6, P, 1, 2, 1),
    "itxn_next": (6, P, 0, 0, 1), "gitxn": (6, P, 0, 1, 1), "gitxna": (6, P, 0, 1, 1),
    "gloadss": (6, P, 2, 1, 1), "itxnas": (6, P, 1, 1, 1), "gitxnas": (6, P, 1, 1, 1),
    # ---- v7 -------------------------------------------------------------------------------
    "base64_decode": (7, A, 1, 1, "size-dependent"), "json_ref": (7, A, 2, 1, "size-dependent"),
    "ed25519verify_bare": (7, A, 3, 1, 1900), "sha3_256": (7, A, 1, 1, 130),
    "vrf_verify": (7, A, 3, 2, 5700), "block": (7, A, 1, 1, 1),
    "replace2": (7, A, 2, 1, 1), "replace3": (7, A, 3, 1, 1),
    # assembler pseudo-op of v7: `replace s` = replace2 s (any s, including 0), `replace` = replace3
    "replace": (7, A, "imm", 1, 1),
    # ---- v8 -------------------------------------------------------------------------------
    "pushbytess": (8, A, 0, "list", 1), "pushints": (8, A, 0, "list", 1),
    "bury": (8, A, "bury", "bury", 1), "popn": (8, A, "n", 0, 1), "dupn": (8, A, "dupn", "dupn", 1),
    "proto": (8, A, 0, 0, 1), "frame_dig": (8, A, 0, 1, 1), "frame_bury": (8, A, 1, 0, 1),
    "switch": (8, A, 1, 0, 1), "match": (8, A, "labels+1", 0, 1),
    "box_create": (8, P, 2, 1, 1), "box_extract": (8, P, 3, 1, 1), "box_replace": (8, P, 3, 0, 1),
    "box_del": (8, P, 1, 1, 1), "box_len": (8, P, 1, 2, 1), "box_get": (8, P, 1, 2, 1), "box_put": (8, P, 2, 0, 1),
}


def stack_effect(op: str, imm: List[Any]) -> Tuple[int, int]:
    """(pops, pushes) in the "minimal depth touched" convention: an opcode that reads n values below
    the top without consuming them pops them and pushes them back."""
    _v, _m, pops, pushes, _c = OPS[op]
    if isinstance(pops, int) and isinstance(pushes, int):
        return pops, pushes
    if op in ("pushints", "pushbytess"):
        return 0, len(imm)
    if op == "match":
        return len(imm) + 1, 0
    if op == "replace":
        return (2, 1) if imm else (3, 1)
    n = int(imm[0]) if imm else 0
    if op == "dig":
        return n + 1, n + 2
    if op in ("cover", "uncover"):
        return n + 1, n + 1
    if op == "bury":
        return n + 1, n  # replaces the n-th value from the top with the popped top
    if op == "popn":
        return n, 0
    if op == "dupn":
        return 1, n + 1
    if op in ("pushints", "pushbytess"):
        return 0, len(imm)
    if op == "match":
        return len(imm) + 1, 0
    raise KeyError(op)


def cost(op: str, version: int, imm: Optional[List[str]] = None) -> Optional[int]:
    c = OPS[op][4]
    if isinstance(c, int):
        return c
    if isinstance(c, dict):
        best = None
        for v in sorted(c):
            if version >= v:
                best = c[v]
        return best
    if c == "ecdsa_verify":
        return {"Secp256k1": 1700, "Secp256r1": 2500}.get((imm or ["Secp256k1"])[0])
    if c == "ecdsa_pk_decompress":
        return {"Secp256k1": 650, "Secp256r1": 2400}.get((imm or ["Secp256k1"])[0])
    return None  # size-dependent: outside the claim


# transaction fields: name -> introduction version (array fields included)
TXN_FIELDS: Dict[str, int] = {
    "Sender": 1, "Fee": 1, "FirstValid": 1, "FirstValidTime": 7, "LastValid": 1, "Note": 1, "Lease": 1, "Receiver": 1,
    "Amount": 1, "CloseRemainderTo": 1, "VotePK": 1, "SelectionPK": 1, "VoteFirst": 1, "VoteLast": 1, "VoteKeyDilution": 1,
    "Type": 1, "TypeEnum": 1, "XferAsset": 1, "AssetAmount": 1, "AssetSender": 1, "AssetReceiver": 1, "AssetCloseTo": 1,
    "GroupIndex": 1, "TxID": 1,
    "ApplicationID": 2, "OnCompletion": 2, "ApplicationArgs": 2, "NumAppArgs": 2, "Accounts": 2, "NumAccounts": 2,
    "ApprovalProgram": 2, "ClearStateProgram": 2, "RekeyTo": 2, "ConfigAsset": 2, "ConfigAssetTotal": 2,
    "ConfigAssetDecimals": 2, "ConfigAssetDefaultFrozen": 2, "ConfigAssetUnitName": 2, "ConfigAssetName": 2,
    "ConfigAssetURL": 2, "ConfigAssetMetadataHash": 2, "ConfigAssetManager": 2, "ConfigAssetReserve": 2,
    "ConfigAssetFreeze": 2, "ConfigAssetClawback": 2, "FreezeAsset": 2, "FreezeAssetAccount": 2, "FreezeAssetFrozen": 2,
    "Assets": 3, "NumAssets": 3, "Applications": 3, "NumApplications": 3, "GlobalNumUint": 3, "GlobalNumByteSlice": 3,
    "LocalNumUint": 3, "LocalNumByteSlice": 3,
    "ExtraProgramPages": 4,
    "Nonparticipation": 5, "Logs": 5, "NumLogs": 5, "CreatedAssetID": 5, "CreatedApplicationID": 5,
    "LastLog": 6, "StateProofPK": 6,
    "ApprovalProgramPages": 7, "NumApprovalProgramPages": 7, "ClearStateProgramPages": 7, "NumClearStateProgramPages": 7,
}

GLOBAL_FIELDS: Dict[str, Tuple[int, str]] = {
    "MinTxnFee": (1, A), "MinBalance": (1, A), "MaxTxnLife": (1, A), "ZeroAddress": (1, A), "GroupSize": (1, A),
    "LogicSigVersion": (2, A), "Round": (2, P), "LatestTimestamp": (2, P), "CurrentApplicationID": (2, P),
    "CreatorAddress": (3, P), "CurrentApplicationAddress": (5, P), "GroupID": (5, A),
    "OpcodeBudget": (6, A), "CallerApplicationID": (6, P), "CallerApplicationAddress": (6, P),
}


def pyteal_crosscheck() -> Dict[str, Any]:
    """Compare versions and modes with pyteal's tables; returns {'agree': n, 'disagree': [...], 'missing': [...]}"""
    out: Dict[str, Any] = {"agree": 0, "disagree": [], "not_in_pyteal": [], "pyteal_only": []}
    try:
        from pyteal.ir.ops import Op, Mode  # type: ignore
    except Exception as e:  # pylint: disable=broad-except
        out["error"] = f"pyteal not importable: {e}"
        return out
    seen = set()
    for op in Op:
        name = op.value.value if hasattr(op.value, "value") else op.value[0]
        try:
            name, minv, mode = op.value.value, op.value.min_version, op.value.mode
        except AttributeError:
            continue
        if minv > 8:
            continue
        seen.add(name)
        if name not in OPS:
            out["pyteal_only"].append(name)
            continue
        v, m = OPS[name][0], OPS[name][1]
        pm = {Mode.Signature: S, Mode.Application: P}.get(mode, A)
        if (max(2, v), m) == (minv, pm):  # pyteal targets TEAL >= 2 and records max(2, version)
            out["agree"] += 1
        else:
            out["disagree"].append({"op": name, "mine": [v, m], "pyteal": [minv, pm]})
    for name in OPS:
        if name not in seen:
            out["not_in_pyteal"].append(name)
    return out


ASSET_HOLDING_FIELDS = ["AssetBalance", "AssetFrozen"]
ASSET_PARAMS_FIELDS = ["AssetTotal", "AssetDecimals", "AssetDefaultFrozen", "AssetUnitName", "AssetName", "AssetURL", "AssetMetadataHash",
                       "AssetManager", "AssetReserve", "AssetFreeze", "AssetClawback", "AssetCreator"]
APP_PARAMS_FIELDS = ["AppApprovalProgram", "AppClearStateProgram", "AppGlobalNumUint", "AppGlobalNumByteSlice", "AppLocalNumUint",
                     "AppLocalNumByteSlice", "AppExtraProgramPages", "AppCreator", "AppAddress"]
ACCT_PARAMS_FIELDS = ["AcctBalance", "AcctMinBalance", "AcctAuthAddr", "AcctTotalNumUint", "AcctTotalNumByteSlice", "AcctTotalExtraAppPages",
                      "AcctTotalAppsCreated", "AcctTotalAppsOptedIn", "AcctTotalAssetsCreated", "AcctTotalAssets", "AcctTotalBoxes", "AcctTotalBoxBytes"]
ARRAY_TXN_FIELDS = {"ApplicationArgs", "Accounts", "Assets", "Applications", "Logs", "ApprovalProgramPages", "ClearStateProgramPages"}
