"""C12: a function cut out by a dispatch path has exactly that path's executions."""
from __future__ import annotations

import time
from typing import Any, Dict, List, Optional, Sequence, Tuple

import z3

from vlib import cfgsem as cs
from vlib import claims as cl
from vlib import scheck as sc
from vlib import tealsem as ts
from vlib.scheck import Finding, ProgStats
from vlib.tealerio import build_function, parse_only


def graph_snapshot(blocks: Sequence[Any]) -> List[Tuple]:
    out = []
    for b in sorted(blocks, key=lambda x: x.idx):
        out.append((b.idx, tuple((i.line, str(i)) for i in b.instructions), tuple(x.idx for x in b.next), tuple(x.idx for x in b.prev)))
    return out


def dispatch_paths(teal: Any, max_len: int) -> List[List[Any]]:
    """Every root-to-block prefix (no repeated block) of the main graph, up to max_len blocks."""
    out: List[List[Any]] = []

    def go(path: List[Any]) -> None:
        out.append(list(path))
        if len(path) >= max_len:
            return
        for nb in path[-1].next:
            if nb not in path and nb in teal.main.blocks:
                go(path + [nb])

    go([teal.main.entry])
    return out


def path_through_loop(p: ts.Prog, plines: List[int]) -> bool:
    """Some block of the dispatch path (other than the last) can be reached again from its on-path successor."""
    l2p = {ins.line: ins.idx for ins in p.ins}
    pcs = [l2p[l] for l in plines if l in l2p]
    for a, b in zip(pcs, pcs[1:]):
        if a in cs.reach(p, b):
            return True
    return False


def is_err_block(b: Any) -> bool:
    from tealer.teal.instructions.instructions import TealerCustomErrInstruction

    return len(b.instructions) == 1 and isinstance(b.instructions[0], TealerCustomErrInstruction)


def check_dispatch(src: str, prop: str = "C12", max_len: int = 3, max_paths: int = 12, unroll: int = 2,
                   with_exact: bool = True) -> Tuple[List[Finding], ProgStats]:
    st = ProgStats()
    p = ts.tokenize(src)
    t0 = time.time()
    teal = parse_only(src)
    snap0 = graph_snapshot(teal.bbs)
    findings: List[Finding] = []
    gstats = cs.GStats()
    gsolver = cs.GSolver(gstats)

    def add(kind: str, what: str, line: Optional[int] = None, obs: Any = None) -> None:
        findings.append(Finding(prop, kind, src, what, None, None, line, kind, obs, True))

    paths = dispatch_paths(teal, max_len)[:max_paths]
    built: Dict[Tuple[str, ...], Any] = {}
    main_by_idx = {b.idx: b for b in teal.main.blocks}
    for path in paths:
        ids = [f"B{b.idx}" for b in path]
        try:
            fn = build_function(teal, ids, "_".join(ids))
        except Exception as ex:  # pylint: disable=broad-except
            add("build", f"construct_function({ids}) raised {type(ex).__name__}: {ex}")
            continue
        built[tuple(ids)] = fn
        st.tealer_s += 0
        # -- (a) structure ------------------------------------------------------------------
        fmain = {b.idx: b for b in fn.main.blocks}
        if len(path) == 1:
            a = graph_snapshot(fn.main.blocks)
            b_ = graph_snapshot(teal.main.blocks)
            if a != b_:
                add("iso", f"function for path {ids}: main graph differs from the contract's main graph (block ids, instruction text, lines or edges)", None, {"function": a[:4], "contract": b_[:4]})
        for name, sub in fn.subroutines.items():
            if teal.subroutines.get(name) is not sub:
                add("shared-subs", f"function for path {ids}: subroutine {name} is not the contract's subroutine object")
        # departures from the path lead to error blocks; on-path edges are the contract's
        for i, ob in enumerate(path):
            cb = fmain.get(ob.idx)
            if cb is None:
                add("path-block", f"function for path {ids}: block B{ob.idx} of the path is missing")
                continue
            if [(x.line, str(x)) for x in cb.instructions] != [(x.line, str(x)) for x in ob.instructions]:
                add("path-block-text", f"function for path {ids}: block B{ob.idx} has different instructions", ob.entry_instr.line)
            if i < len(path) - 1:
                want = path[i + 1].idx
                if len(cb.next) != len(ob.next):
                    add("departure", f"function for path {ids}: B{ob.idx} has {len(cb.next)} successors, the contract's block has {len(ob.next)}", ob.entry_instr.line)
                for nb_c, nb_o in zip(cb.next, ob.next):
                    if nb_o.idx == want:
                        if is_err_block(nb_c) or nb_c.idx != want:
                            add("departure", f"function for path {ids}: the on-path successor of B{ob.idx} was replaced", ob.entry_instr.line)
                    elif not is_err_block(nb_c):
                        add("departure", f"function for path {ids}: leaving the path at B{ob.idx} towards B{nb_o.idx} does not lead to an error block", ob.entry_instr.line)
                    elif cb not in nb_c.prev:
                        add("mirror", f"function for path {ids}: error block after B{ob.idx} does not list it as predecessor", ob.entry_instr.line)
            else:
                if [x.idx for x in cb.next] != [x.idx for x in ob.next] or any(is_err_block(x) for x in cb.next):
                    add("entry-block", f"function for path {ids}: successors of the function entry B{ob.idx} differ from the contract's", ob.entry_instr.line)
        # mirror / closure of the function's own graph (relation query over symbolic block ids)
        blocks = list(fn.blocks) + [x for b in fn.main.blocks for x in b.next if x not in fn.blocks]
        bid = {id(b): k for k, b in enumerate(blocks)}
        nxt = [(bid[id(a)], bid.get(id(b), -1)) for a in blocks for b in a.next]
        prv = [(bid.get(id(b), -1), bid[id(a)]) for a in blocks for b in a.prev]
        A, B = z3.Int("A"), z3.Int("B")

        def rel(pairs: List[Tuple[int, int]]) -> Any:
            return z3.Or(*[z3.And(A == x, B == y) for x, y in pairs]) if pairs else z3.BoolVal(False)

        gsolver.s.push()
        gsolver.s.add(rel(nxt) != rel(prv))
        if gsolver.check() == "sat":
            m = gsolver.s.model()
            add("mirror", f"function for path {ids}: successor/predecessor lists do not mirror each other (blocks #{m.eval(A, True)} -> #{m.eval(B, True)})")
        gsolver.s.pop()
        # -- (b) contexts: soundness / exactness w.r.t. exactly the executions that start with the path ---
        plines = [b.entry_instr.line for b in path]
        f1, s1 = sc.check_soundness(src, prop, keys=sc.ALL_KEYS, gtxn=False, unroll=unroll, function=fn, prefix_lines=plines)
        loops = path_through_loop(p, plines)
        for f in f1:
            f.what = f"function for path {ids}: " + f.what
            f.extra["dispatch_path"] = ids
            if loops:
                f.extra["known_hint"] = "KF-C12-path-through-loop"
        findings += f1
        _merge(st, s1)
        if with_exact and not s1.skipped:
            f2, s2 = sc.check_exact_int(src, prop, unroll=unroll, function=fn, prefix_lines=plines)
            if len(path) > 1 and any(f.kind.endswith(":extra") for f in f2):
                # attribute to KF-C12-early-exit-in-callee only what the relaxed reading no longer shows
                f3, s3 = sc.check_exact_int(src, prop, unroll=unroll, function=fn, prefix_lines=plines, early_ok=True)
                _merge(st, s3)
                still = {(g.kind, g.block_line) for g in f3}
                for f in f2:
                    if f.kind.endswith(":extra") and (f.kind, f.block_line) not in still:
                        f.extra["known_hint"] = "KF-C12-early-exit-in-callee"
            for f in f2:
                f.what = f"function for path {ids}: " + f.what
                f.extra["dispatch_path"] = ids
                if loops and f.kind.endswith(":missing"):
                    f.extra["known_hint"] = "KF-C12-path-through-loop"
            findings += f2
            _merge(st, s2)
    # -- (c) building functions does not alter the contract's own graph; contexts do not depend on what else was built
    if graph_snapshot(teal.bbs) != snap0:
        add("contract-graph-altered", "building functions changed the contract's own graph (blocks, instructions or edges)")
    if len(built) >= 2:
        teal2 = parse_only(src)
        keys = list(built)
        last = keys[-1]
        try:
            alone = build_function(teal2, list(last), "alone")
            d1 = {b.idx: cl.describe_ctx(alone.transaction_context(b)) for b in alone.blocks}
            d2 = {b.idx: cl.describe_ctx(built[last].transaction_context(b)) for b in built[last].blocks}
            if d1 != d2:
                add("order-dependence", f"contexts of the function for path {list(last)} differ when it is built alone and after {len(built) - 1} other functions")
        except Exception as ex:  # pylint: disable=broad-except
            add("build", f"construct_function({list(last)}) on a fresh parse raised {type(ex).__name__}: {ex}")
    st.tealer_s = time.time() - t0 - st.solver_s
    for k in ("sat", "unsat", "unknown"):
        st.queries[k] += getattr(gstats, k)
    st.solver_s += gstats.time
    st.extra = {"functions_built": len(built), "dispatch_paths": len(paths)}
    st.nontrivial = len(built) > 1
    uniq: Dict[str, Finding] = {}
    for f in findings:
        uniq.setdefault(f.kind + "|" + str(f.block_line) + "|" + str(f.extra.get("dispatch_path")), f)
    return list(uniq.values()), st


def _merge(a: ProgStats, b: ProgStats) -> None:
    a.paths += b.paths
    a.accepting += b.accepting
    a.cut += b.cut
    for k in a.queries:
        a.queries[k] += b.queries[k]
    a.solver_s += b.solver_s
    if b.skipped and not a.skipped:
        a.skipped = b.skipped
