"""C13: group-configuration verdicts against the group semantics (several contracts in one symbolic group)."""
from __future__ import annotations

import os
import shutil
import tempfile
import time
from dataclasses import dataclass, field
from pathlib import Path
from typing import Any, Callable, Dict, List, Optional, Sequence, Tuple

import z3

from vlib import scheck as sc
from vlib import symexec as sx
from vlib import tealsem as ts
from vlib.scheck import Finding, ProgStats
from vlib.tealerio import quiet
from vlib.tealsem import ADDR_ATT, MAX_GROUP

TYPE_CODE = {"pay": 1, "keyreg": 2, "acfg": 3, "axfer": 4, "afrz": 5, "appl": 6}


@dataclass
class TxnSpec:
    txn_id: str
    txn_type: str = "txn"
    logic_sig: Optional[str] = None  # contract name
    application: Optional[str] = None
    absolute_index: Optional[int] = None
    relative_indexes: Dict[str, int] = field(default_factory=dict)  # other txn id -> offset (other = this + offset)
    has_logic_sig: Optional[bool] = None


@dataclass
class GroupSpec:
    contracts: Dict[str, Tuple[str, str]]  # name -> (source, "LogicSig" | "ApprovalProgram")
    txns: List[TxnSpec]
    name: str = "g"

    def to_json(self) -> Dict[str, Any]:
        return {"contracts": {k: {"source": v[0], "type": v[1]} for k, v in self.contracts.items()},
                "txns": [t.__dict__ for t in self.txns]}


GROUP_DETECTORS = {
    # name -> (class name, "stateless" | "stateful", allowed configured types or None)
    "rekey-to": ("MissingRekeyTo", "stateless", None),
    "can-close-account": ("CanCloseAccount", "stateless", ("txn", "pay")),
    "can-close-asset": ("CanCloseAsset", "stateless", ("txn", "axfer")),
    "missing-fee-check": ("MissingFeeCheck", "stateless", None),
    "is-updatable": ("IsUpdatable", "stateful", None),
    "is-deletable": ("IsDeletable", "stateful", None),
    "unprotected-updatable": ("AnyoneCanUpdate", "stateful", None),
    "unprotected-deletable": ("AnyoneCanDelete", "stateful", None),
}


def run_tealer_group(g: GroupSpec, via_yaml: bool = False) -> Dict[str, List[str]]:
    """Real tealer: GroupConfig objects -> init_tealer_from_config -> run_detectors; returns detector -> reported txn ids."""
    from tealer.detectors import all_detectors
    from tealer.utils.command_line.common import init_tealer_from_config
    from tealer.utils.command_line import group_config as GC

    d = tempfile.mkdtemp(prefix="verif_c13_")
    try:
        contracts = []
        for name, (src, ctype) in g.contracts.items():
            path = Path(d) / f"{name}.teal"
            path.write_text(src)
            contracts.append(GC.GroupConfigContract(name, path, ctype, ts.tokenize(src).version, [], [GC.GroupConfigFunction("main", ["B0"])]))
        txns = []
        for t in g.txns:
            txns.append(GC.GroupConfigTransaction(
                t.txn_id, t.txn_type,
                GC.GroupConfigFunctionCall(t.application, "main") if t.application else None,
                t.has_logic_sig,
                GC.GroupConfigFunctionCall(t.logic_sig, "main") if t.logic_sig else None,
                t.absolute_index,
                dict(t.relative_indexes) if t.relative_indexes else None,
            ))
        cfg = GC.GroupConfig(g.name, contracts, [GC.GroupConfigGroup("op", txns)])
        if via_yaml:
            y = cfg.to_yaml()
            for c in y["contracts"]:
                c["file_path"] = os.path.basename(str(c["file_path"]))
            GC.write_to_yaml_file(Path(d) / "cfg.yaml", y)
            cfg = GC.read_config_from_file(Path(d) / "cfg.yaml")
        with quiet():
            tealer = init_tealer_from_config(cfg)
            for det, (cls, _k, _t) in GROUP_DETECTORS.items():
                tealer.register_detector(getattr(all_detectors, cls))
            results = tealer.run_detectors()
        out: Dict[str, List[str]] = {}
        for det, res in zip(GROUP_DETECTORS, results):
            ids: List[str] = []
            for o in res:
                ids += [t.transacton_id for t in o.transactions]
            out[det] = ids
        return out
    finally:
        shutil.rmtree(d, ignore_errors=True)


def eligible(det: str, t: TxnSpec) -> bool:
    _cls, kind, types = GROUP_DETECTORS[det]
    has_lsig = bool(t.logic_sig) or bool(t.has_logic_sig)
    if kind == "stateless" and not has_lsig:
        return False
    if kind == "stateful" and not t.application:
        return False
    if types is not None and t.txn_type not in types:
        return False
    return True


def danger_at(det: str, d: Any, slot: Any) -> Any:
    te = d.field("TypeEnum", slot)
    oc = d.field("OnCompletion", slot)

    def addr(f: str) -> Any:
        return d.field(f, slot) == ADDR_ATT

    return {
        "rekey-to": lambda: addr("RekeyTo"),
        "can-close-account": lambda: z3.And(te == 1, addr("CloseRemainderTo")),
        "can-close-asset": lambda: z3.And(te == 4, addr("AssetCloseTo")),
        "missing-fee-check": lambda: d.field("Fee", slot) > sc.MAX_COST,
        "is-updatable": lambda: z3.And(te == 6, oc == 4),
        "is-deletable": lambda: z3.And(te == 6, oc == 5),
        "unprotected-updatable": lambda: z3.And(te == 6, oc == 4, addr("Sender")),
        "unprotected-deletable": lambda: z3.And(te == 6, oc == 5, addr("Sender")),
    }[det]()


def semantic_vulnerable(g: GroupSpec, st: ProgStats, unroll: int = 2) -> Tuple[Dict[Tuple[str, str], Dict[str, Any]], bool]:
    """(detector, txn id) -> model of a concrete group consistent with the configuration that every
    configured contract approves while the transaction carries the dangerous value."""
    progs = {name: ts.tokenize(src) for name, (src, _t) in g.contracts.items()}
    n_addr = ts.ADDR_FIRST_LITERAL
    all_addr: Dict[str, int] = {}
    for p in progs.values():
        for a in ts.address_table(p):
            if a != ts.ZERO_ADDRESS_TXT and a not in all_addr:
                all_addr[a] = ts.ADDR_FIRST_LITERAL + len(all_addr)
    n_addr += len(all_addr)
    dom = sx.Z3Dom(n_addr, "EXACT", True)
    dom.declare_all(sx.ALL_FIELD_FUNCS)
    pos = {t.txn_id: z3.Int("pos_" + t.txn_id) for t in g.txns}
    s = dom.solver
    for t in g.txns:
        s.add(pos[t.txn_id] >= 0, pos[t.txn_id] < dom.gs)
        if t.absolute_index is not None:
            s.add(pos[t.txn_id] == t.absolute_index)
        for other, off in t.relative_indexes.items():
            s.add(pos[other] == pos[t.txn_id] + off)
        if t.txn_type in TYPE_CODE:
            s.add(dom.field("TypeEnum", pos[t.txn_id]) == TYPE_CODE[t.txn_type])
    ids = [t.txn_id for t in g.txns]
    for i, a in enumerate(ids):
        for b in ids[i + 1:]:
            s.add(pos[a] != pos[b])
    runs: List[Tuple[str, ts.Prog]] = []
    for t in g.txns:
        if t.logic_sig:
            runs.append((t.txn_id, progs[t.logic_sig]))
        if t.application:
            runs.append((t.txn_id, progs[t.application]))
    found: Dict[Tuple[str, str], Dict[str, Any]] = {}
    wanted = [(det, t) for det in GROUP_DETECTORS for t in g.txns if eligible(det, t)]
    incomplete = [False]

    def nest(k: int) -> None:
        if k == len(runs):
            st.accepting += 1
            for det, t in wanted:
                if (det, t.txn_id) in found:
                    continue
                if dom.check(danger_at(det, dom, pos[t.txn_id])) == "sat":
                    dom.push()
                    dom.add(danger_at(det, dom, pos[t.txn_id]))
                    dom.check()
                    m = dom.extract_model()
                    mm = dom.solver.model()
                    m["pos"] = {tid: mm.eval(v, model_completion=True).as_long() for tid, v in pos.items()}
                    found[(det, t.txn_id)] = m
                    dom.pop()
            return
        tid, prog = runs[k]
        view = dom.view(pos[tid], f"r{k}:")
        ex = ts.Executor(prog, view, "EXACT", None, unroll, 3, 400)
        # all contracts share one address universe: use the merged table
        ex.addr_tab = dict(all_addr)
        ex.addr_tab[ts.ZERO_ADDRESS_TXT] = ts.ADDR_ZERO

        def cb(res: ts.PathResult, _st: Any) -> None:
            st.paths += 1
            if res.cut:
                st.cut += 1
            if res.accepted:
                nest(k + 1)

        ex.on_path = cb
        ex.run()
        if ex.budget_exhausted:
            incomplete[0] = True

    nest(0)
    st.absorb(dom)
    return found, incomplete[0]


# ---------------------------------------------------------------------------------------------
# cleared direction (direct-check reading) and the complete check
# ---------------------------------------------------------------------------------------------

# detector -> projections: (fields, danger(d, slot))
def _projections(det: str) -> List[Tuple[List[str], Callable[[Any, Any], Any]]]:
    def addr(f: str) -> Tuple[List[str], Callable[[Any, Any], Any]]:
        return ([f], lambda d, s, f=f: d.field(f, s) == ADDR_ATT)

    K = ["TypeEnum", "OnCompletion", "ApplicationID"]

    def te(v: int) -> Tuple[List[str], Callable[[Any, Any], Any]]:
        return (K, lambda d, s, v=v: d.field("TypeEnum", s) == v)

    def oc(v: int) -> Tuple[List[str], Callable[[Any, Any], Any]]:
        return (K, lambda d, s, v=v: z3.And(d.field("TypeEnum", s) == 6, d.field("OnCompletion", s) == v))

    return {
        "rekey-to": [addr("RekeyTo")],
        "can-close-account": [addr("CloseRemainderTo"), te(1)],
        "can-close-asset": [addr("AssetCloseTo"), te(4)],
        "missing-fee-check": [(["Fee"], lambda d, s: d.field("Fee", s) > sc.MAX_COST)],
        "is-updatable": [oc(4)],
        "is-deletable": [oc(5)],
        "unprotected-updatable": [oc(4), addr("Sender")],
        "unprotected-deletable": [oc(5), addr("Sender")],
    }[det]


def _excludes(prog: ts.Prog, governed: List[Any], danger: Callable[[Any], Any], st: ProgStats, unroll: int = 2) -> bool:
    """FREE reading of one contract: it has accepting paths and none of them admits the dangerous value."""
    accepting = [0]
    admits = [False]
    incomplete = [False]

    def on_accept(dom: sx.Z3Dom, res: ts.PathResult, _s: Any) -> None:
        accepting[0] += 1
        if dom.check(danger(dom)) == "sat":
            admits[0] = True

    def on_any(dom: sx.Z3Dom, res: ts.PathResult, _s: Any) -> None:
        st.paths += 1
        if res.cut and res.cut != "loop":
            incomplete[0] = True

    _ex, dom = sx.explore(prog, "FREE", governed, unroll, max_depth=sc.FREE_DEPTH, on_accept=on_accept, on_any=on_any)
    st.absorb(dom)
    return accepting[0] > 0 and not admits[0] and not incomplete[0]


def cleared_by(g: GroupSpec, det: str, t: TxnSpec, st: ProgStats) -> Optional[str]:
    """A reason why the direct-check reading clears t for det, or None."""
    progs = {name: ts.tokenize(src) for name, (src, _t) in g.contracts.items()}
    by_id = {x.txn_id: x for x in g.txns}
    for fields, danger in _projections(det):
        # (1) its own contracts, reading the transaction through txn (or through its configured absolute index)
        for cname in (t.logic_sig, t.application):
            if not cname:
                continue
            gov: List[Any] = list(fields)
            if _excludes(progs[cname], gov, lambda d, danger=danger: danger(d, d.gi), st):
                return f"own contract {cname} excludes {fields}"
        # (2) another member reading it through the configured absolute index or offset
        for m in g.txns:
            if m.txn_id == t.txn_id:
                continue
            routes: List[Tuple[str, int]] = []
            if t.absolute_index is not None:
                routes.append(("abs", t.absolute_index))
            if t.txn_id in m.relative_indexes:
                routes.append(("rel", m.relative_indexes[t.txn_id]))  # t = m + k
            if m.txn_id in t.relative_indexes:
                routes.append(("rel", -t.relative_indexes[m.txn_id]))  # m = t + k  =>  t = m - k
            for kind, n in routes:
                for cname in (m.logic_sig, m.application):
                    if not cname:
                        continue
                    gov = [(kind, n, f) for f in fields]

                    def dg(d: Any, danger: Any = danger, kind: str = kind, n: int = n) -> Any:
                        return danger(d, d.const(n) if kind == "abs" else d.gi + n)

                    if _excludes(progs[cname], gov, dg, st):
                        return f"member {m.txn_id} ({cname}) excludes {fields} through {kind} {n}"
    return None


def replay_group(g: GroupSpec, model: Dict[str, Any], det: str, tid: str, unroll: int = 2) -> bool:
    """Concrete replay: every configured contract approves at its slot and the transaction carries the dangerous value."""
    progs = {name: ts.tokenize(src) for name, (src, _t) in g.contracts.items()}
    all_addr: Dict[str, int] = {}
    for p in progs.values():
        for a in ts.address_table(p):
            if a != ts.ZERO_ADDRESS_TXT and a not in all_addr:
                all_addr[a] = ts.ADDR_FIRST_LITERAL + len(all_addr)
    pos = model["pos"]
    gs = model["gs"]
    if len(set(pos.values())) != len(pos) or any(not 0 <= v < gs for v in pos.values()):
        return False
    for t in g.txns:
        if t.absolute_index is not None and pos[t.txn_id] != t.absolute_index:
            return False
        for other, off in t.relative_indexes.items():
            if pos[other] != pos[t.txn_id] + off:
                return False
        if t.txn_type in TYPE_CODE and int(model["fields"]["TypeEnum"][str(pos[t.txn_id])]) != TYPE_CODE[t.txn_type]:
            return False
    k = 0
    for t in g.txns:
        for cname in (t.logic_sig, t.application):
            if not cname:
                continue
            dom = ts.ConcreteDom(model, gi=pos[t.txn_id], tag=f"r{k}:")
            ex = ts.Executor(progs[cname], dom, "EXACT", None, unroll, 3, 400)
            ex.addr_tab = dict(all_addr)
            ex.addr_tab[ts.ZERO_ADDRESS_TXT] = ts.ADDR_ZERO
            ex.run()
            if not ex.results or not ex.results[0].accepted:
                return False
            k += 1
    m2 = dict(model)
    m2["gi"] = pos[tid]
    return sc.danger_concrete(det, m2)


def check_group(g: GroupSpec, prop: str = "C13", via_yaml: bool = False, with_cleared: bool = True) -> Tuple[List[Finding], ProgStats]:
    st = ProgStats()
    t0 = time.time()
    findings: List[Finding] = []
    desc = g.to_json()
    try:
        reported = run_tealer_group(g, via_yaml)
    except Exception as ex:  # pylint: disable=broad-except
        findings.append(Finding(prop, "crash", str(desc), f"init_tealer_from_config / run_detectors raised {type(ex).__name__}: {ex}", None, None, None, "crash", None, True, {"group": desc}))
        return findings, st
    st.tealer_s = time.time() - t0
    try:
        vuln, incomplete = semantic_vulnerable(g, st)
    except ts.Unsupported as e:
        st.skipped = f"unsupported opcode {e}"
        return [], st
    st.nontrivial = True
    for (det, tid), model in vuln.items():
        if tid not in reported[det]:
            f = Finding(prop, f"must-report:{det}", str(desc),
                        f"{det}: a group consistent with the configuration (positions {model['pos']}, size {model['gs']}) is approved by every configured contract while {tid} "
                        f"carries the dangerous value, but {tid} is not reported (reported: {reported[det]})", model, None, None, det, reported[det], False, {"group": desc, "txn": tid})
            f.replayed = replay_group(g, model, det, tid) and tid not in run_tealer_group(g, via_yaml)[det]
            findings.append(f)
    if with_cleared:
        for det in GROUP_DETECTORS:
            for t in g.txns:
                if not eligible(det, t) or t.txn_id not in reported[det]:
                    continue
                if (det, t.txn_id) in vuln:
                    continue  # genuinely vulnerable: nothing to clear
                why = cleared_by(g, det, t, st)
                if why is not None:
                    findings.append(Finding(prop, f"must-clear:{det}", str(desc),
                                            f"{det}: {t.txn_id} is reported although {why} at every accepting exit (and no approved group carries the dangerous value)",
                                            None, None, None, det, reported[det], True, {"group": desc, "txn": t.txn_id, "why": why}))
    # eligibility: a transaction that is not eligible for the detector is never reported
    for det in GROUP_DETECTORS:
        for t in g.txns:
            if t.txn_id in reported[det] and not eligible(det, t):
                findings.append(Finding(prop, f"ineligible:{det}", str(desc), f"{det}: {t.txn_id} is reported although it is not eligible for the detector", None, None, None, det, reported[det], True, {"group": desc}))
    return findings, st
