"""Thin access layer to the real tealer (imported from /repo's working tree)."""
from __future__ import annotations

import contextlib
import io
import logging
import os
import sys
from typing import Any, Dict, List, Optional, Tuple

logging.disable(logging.CRITICAL)

# pylint: disable=wrong-import-position
from tealer.teal.parse_teal import parse_teal  # noqa: E402
from tealer.teal.parse_functions import construct_function  # noqa: E402
from tealer.utils.command_line.common import init_tealer_from_single_contract  # noqa: E402
from tealer.detectors import all_detectors  # noqa: E402

logging.disable(logging.CRITICAL)

PATH_DETECTORS = {
    "rekey-to": "MissingRekeyTo",
    "can-close-account": "CanCloseAccount",
    "can-close-asset": "CanCloseAsset",
    "missing-fee-check": "MissingFeeCheck",
    "is-updatable": "IsUpdatable",
    "is-deletable": "IsDeletable",
    "unprotected-updatable": "AnyoneCanUpdate",
    "unprotected-deletable": "AnyoneCanDelete",
    "group-size-check": "MissingGroupSize",
}


@contextlib.contextmanager
def quiet():
    """tealer prints diagnostics to stdout/stderr; output is not the subject of the S/G checks."""
    out, err = io.StringIO(), io.StringIO()
    with contextlib.redirect_stdout(out), contextlib.redirect_stderr(err):
        yield


class Run:
    """One real analysis of one contract."""

    def __init__(self, src: str, name: str = "c", detectors: Optional[List[str]] = None):
        self.src = src
        with quiet():
            self.tealer = init_tealer_from_single_contract(src, name)
        self.teal = self.tealer.contracts[name]
        self.function = self.teal.functions[name]
        self.paths: Dict[str, List[List[Any]]] = {}
        self.outputs: Dict[str, Any] = {}
        if detectors is None:
            detectors = list(PATH_DETECTORS)
        for d in detectors:
            self.tealer.register_detector(getattr(all_detectors, PATH_DETECTORS[d]))
        with quiet():
            results = self.tealer.run_detectors()
        for d, res in zip(detectors, results):
            paths: List[List[Any]] = []
            for out in res:
                paths.extend(out.paths)
            self.paths[d] = paths
            self.outputs[d] = res
        self.by_line = {b.entry_instr.line: b for b in self.function.blocks}

    def ctx(self, block: Any) -> Any:
        return self.function.transaction_context(block)

    def block_at_line(self, line: int) -> Optional[Any]:
        return self.by_line.get(line)


def parse_only(src: str) -> Any:
    with quiet():
        return parse_teal(src, "c")


def build_function(teal: Any, path: List[str], name: Optional[str] = None) -> Any:
    with quiet():
        return construct_function(teal, path, name)


def tree_sha() -> str:
    """sha256 over the tealer sources of /repo's working tree (recorded in evidence / replays)."""
    import hashlib

    h = hashlib.sha256()
    root = "/repo/tealer"
    for dirpath, dirnames, filenames in sorted(os.walk(root)):
        dirnames.sort()
        for fn in sorted(filenames):
            if fn.endswith(".py"):
                p = os.path.join(dirpath, fn)
                h.update(p.encode())
                with open(p, "rb") as f:
                    h.update(f.read())
    return h.hexdigest()[:16]


def source_sha(objs: List[Any]) -> Dict[str, str]:
    """qualified name -> sha256 of current source text, for the evidence 'functions encoded' list."""
    import hashlib
    import inspect

    out = {}
    for o in objs:
        if callable(o) and getattr(o, "__name__", "") == "<lambda>":
            # drivers pass thunks so that a renamed / removed private helper does not break the check
            try:
                o = o()
            except (AttributeError, ImportError, NameError) as e:
                out[f"<unresolved: {e}>"] = "symbol missing on this tree"
                continue
        try:
            src = inspect.getsource(o)
        except (OSError, TypeError):
            continue
        name = getattr(o, "__module__", "") + "." + getattr(o, "__qualname__", repr(o))
        out[name] = hashlib.sha256(src.encode()).hexdigest()[:16]
    return out
