"""Control-flow meaning of a TEAL program (engine G), independent of tealer.

Concrete successor relations over instruction indices of ``tealsem.Prog`` and their rendering as
z3 relations for one-step / bounded-reachability queries.
"""
from __future__ import annotations

from typing import Dict, List, Optional, Sequence, Set, Tuple

from vlib import tealsem as ts


def intra_succ(p: ts.Prog, pc: int) -> List[int]:
    """Successors inside one activation: a callsub continues at the next instruction."""
    ins = p.ins[pc]
    n = len(p.ins)
    op = ins.op
    if op in ("return", "err", "retsub"):
        return []
    if op == "b":
        return [p.labels[ins.args[0]]]
    out: List[int] = []
    if pc + 1 < n:
        out.append(pc + 1)
    if op in ("bz", "bnz"):
        out.append(p.labels[ins.args[0]])
    elif op in ("switch", "match"):
        out.extend(p.labels[a] for a in ins.args)
    return out


def reach(p: ts.Prog, start: int) -> Set[int]:
    seen: Set[int] = set()
    work = [start]
    while work:
        pc = work.pop()
        if pc in seen or pc >= len(p.ins):
            continue
        seen.add(pc)
        work.extend(intra_succ(p, pc))
    return seen


def sub_entries(p: ts.Prog) -> Dict[str, int]:
    """label -> pc for every label targeted by some callsub (reachable or not)."""
    out: Dict[str, int] = {}
    for ins in p.ins:
        if ins.op == "callsub" and ins.args and ins.args[0] in p.labels:
            out[ins.args[0]] = p.labels[ins.args[0]]
    return out


def retained(p: ts.Prog) -> Set[int]:
    """Instructions reachable from pc 0 or from a callsub target (without following calls)."""
    r = reach(p, 0) if p.ins else set()
    for e in sub_entries(p).values():
        r |= reach(p, e)
    return r


def is_structured(p: ts.Prog) -> bool:
    """Subroutine bodies are entered only through callsub: the code regions of main and of every
    subroutine are pairwise disjoint, execution cannot fall off the end of a subroutine body into
    other code, and main does not run into a retsub."""
    if not p.ins:
        return False
    regions = [("__main__", reach(p, 0))] + [(n, reach(p, e)) for n, e in sub_entries(p).items()]
    for i, (_, a) in enumerate(regions):
        for _, b in regions[i + 1:]:
            if a & b:
                return False
    main = regions[0][1]
    if any(p.ins[pc].op == "retsub" for pc in main):
        return False
    return True


def labels_resolved(p: ts.Prog) -> bool:
    for ins in p.ins:
        if ins.op in ("b", "bz", "bnz", "callsub"):
            if len(ins.args) != 1 or ins.args[0] not in p.labels:
                return False
        if ins.op in ("switch", "match"):
            if any(a not in p.labels for a in ins.args):
                return False
    return True
