"""Control-flow meaning of a TEAL program (engine G), independent of tealer.

Concrete successor relations over instruction indices of ``tealsem.Prog`` and their rendering as
z3 relations for one-step / bounded-reachability queries.
"""
from __future__ import annotations

from typing import Dict, List, Optional, Sequence, Set, Tuple

from vlib import tealsem as ts


def intra_succ(p: ts.Prog, pc: int) -> List[int]:
    """Successors inside one activation: a callsub continues at the next instruction."""
    ins = p.ins[pc]
    n = len(p.ins)
    op = ins.op
    if op in ("return", "err", "retsub"):
        return []
    if op == "b":
        return [p.labels[ins.args[0]]]
    out: List[int] = []
    if pc + 1 < n:
        out.append(pc + 1)
    if op in ("bz", "bnz"):
        out.append(p.labels[ins.args[0]])
    elif op in ("switch", "match"):
        out.extend(p.labels[a] for a in ins.args)
    return out


def reach(p: ts.Prog, start: int) -> Set[int]:
    seen: Set[int] = set()
    work = [start]
    while work:
        pc = work.pop()
        if pc in seen or pc >= len(p.ins):
            continue
        seen.add(pc)
        work.extend(intra_succ(p, pc))
    return seen


def sub_entries(p: ts.Prog) -> Dict[str, int]:
    """label -> pc for every label targeted by some callsub (reachable or not)."""
    out: Dict[str, int] = {}
    for ins in p.ins:
        if ins.op == "callsub" and ins.args and ins.args[0] in p.labels:
            out[ins.args[0]] = p.labels[ins.args[0]]
    return out


def retained(p: ts.Prog) -> Set[int]:
    """Instructions reachable from pc 0 or from a callsub target (without following calls)."""
    r = reach(p, 0) if p.ins else set()
    for e in sub_entries(p).values():
        r |= reach(p, e)
    return r


def is_structured(p: ts.Prog) -> bool:
    """Subroutine bodies are entered only through callsub: the code regions of main and of every
    subroutine are pairwise disjoint, execution cannot fall off the end of a subroutine body into
    other code, and main does not run into a retsub."""
    if not p.ins:
        return False
    regions = [("__main__", reach(p, 0))] + [(n, reach(p, e)) for n, e in sub_entries(p).items()]
    for i, (_, a) in enumerate(regions):
        for _, b in regions[i + 1:]:
            if a & b:
                return False
    main = regions[0][1]
    if any(p.ins[pc].op == "retsub" for pc in main):
        return False
    return True


def labels_resolved(p: ts.Prog) -> bool:
    for ins in p.ins:
        if ins.op in ("b", "bz", "bnz", "callsub"):
            if len(ins.args) != 1 or ins.args[0] not in p.labels:
                return False
        if ins.op in ("switch", "match"):
            if any(a not in p.labels for a in ins.args):
                return False
    return True


# ---------------------------------------------------------------------------------------------
# tealer's graph, read from the real objects
# ---------------------------------------------------------------------------------------------


class TealerGraph:
    """Finite relations extracted from a real ``Teal`` (or ``Function``) object, keyed by instruction
    indices of the independent token list (matched by source line)."""

    def __init__(self, prog: ts.Prog, blocks: Sequence[object]):
        self.prog = prog
        self.line_to_pc = {ins.line: ins.idx for ins in prog.ins}
        self.blocks = list(blocks)
        self.bid = {id(b): k for k, b in enumerate(self.blocks)}
        self.block_pcs: List[List[int]] = []
        self.block_of: Dict[int, int] = {}
        self.synthetic: Set[int] = set()
        self.dup_pcs: List[int] = []
        for k, b in enumerate(self.blocks):
            pcs = []
            for ins in b.instructions:  # type: ignore[attr-defined]
                pc = self.line_to_pc.get(ins.line)
                if pc is None:
                    self.synthetic.add(k)
                    continue
                pcs.append(pc)
                if pc in self.block_of:
                    self.dup_pcs.append(pc)
                self.block_of[pc] = k
            self.block_pcs.append(pcs)
        self.first = [p[0] if p else -1 for p in self.block_pcs]
        self.last = [p[-1] if p else -1 for p in self.block_pcs]

    def ids(self, bs: Sequence[object]) -> List[int]:
        """Block ids of a list of block objects; -1 for an object that is not in the graph."""
        return [self.bid.get(id(b), -1) for b in bs]

    def nexts(self, k: int) -> List[int]:
        return self.ids(self.blocks[k].next)  # type: ignore[attr-defined]

    def prevs(self, k: int) -> List[int]:
        return self.ids(self.blocks[k].prev)  # type: ignore[attr-defined]


# ---------------------------------------------------------------------------------------------
# z3 renderings
# ---------------------------------------------------------------------------------------------


def _z3():
    import z3  # imported lazily: tealsem/cfgsem basics stay importable without z3

    return z3


class GStats:
    def __init__(self) -> None:
        self.sat = 0
        self.unsat = 0
        self.unknown = 0
        self.time = 0.0
        self.states = 0
        self.transitions = 0

    def as_dict(self) -> Dict[str, float]:
        return {"sat": self.sat, "unsat": self.unsat, "unknown": self.unknown, "solver_s": round(self.time, 3)}


class GSolver:
    def __init__(self, stats: GStats, timeout_ms: int = 20000):
        z3 = _z3()
        self.z3 = z3
        self.s = z3.Solver()
        self.s.set("timeout", timeout_ms)
        self.stats = stats

    def check(self, *assumptions) -> str:
        import time as _t

        t0 = _t.time()
        r = str(self.s.check(*assumptions))
        self.stats.time += _t.time() - t0
        if r == "sat":
            self.stats.sat += 1
        elif r == "unsat":
            self.stats.unsat += 1
        else:
            self.stats.unknown += 1
        from vlib import smtdump

        smtdump.maybe_dump(self.s, assumptions, r)
        return r


def sem_step_relation(p: ts.Prog, z3, pc, pc2, ret, choice):
    """One step of the control-flow semantics from an arbitrary state.

    pc, pc2: Int terms (pc2 == len(p.ins) means the program ended by falling off the end);
    ret: Int term, the return address on top of the call stack; choice: Int term (branch outcome).
    Returns a z3 formula: the step pc -> pc2 is possible."""
    n = len(p.ins)
    cases = []
    for i, ins in enumerate(p.ins):
        op = ins.op
        here = pc == i
        if op in ("return", "err"):
            continue  # no successor
        if op == "b":
            cases.append(z3.And(here, pc2 == p.labels[ins.args[0]]))
        elif op in ("bz", "bnz"):
            cases.append(z3.And(here, z3.Or(pc2 == i + 1, pc2 == p.labels[ins.args[0]])))
        elif op in ("switch", "match"):
            cases.append(z3.And(here, z3.Or(pc2 == i + 1, *[pc2 == p.labels[a] for a in ins.args])))
        elif op == "callsub":
            cases.append(z3.And(here, pc2 == p.labels[ins.args[0]]))
        elif op == "retsub":
            cases.append(z3.And(here, pc2 == ret))
        else:
            cases.append(z3.And(here, pc2 == i + 1))
    return z3.Or(*cases) if cases else z3.BoolVal(False)


def region_of(p: ts.Prog) -> Dict[int, Set[str]]:
    """pc -> names of the code regions (main / subroutines) that contain it (call-free reachability)."""
    out: Dict[int, Set[str]] = {}
    for pc in reach(p, 0):
        out.setdefault(pc, set()).add("__main__")
    for name, e in sub_entries(p).items():
        for pc in reach(p, e):
            out.setdefault(pc, set()).add(name)
    return out


def valid_return_addresses(p: ts.Prog) -> Dict[str, List[int]]:
    """subroutine name -> addresses a retsub inside it may return to (pc+1 of every retained call site)."""
    ret: Dict[str, List[int]] = {}
    keep = retained(p)
    for ins in p.ins:
        if ins.op == "callsub" and ins.idx in keep:
            ret.setdefault(ins.args[0], []).append(ins.idx + 1)
    return ret
