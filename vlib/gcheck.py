"""Engine G obligations: tealer's graphs against the control-flow semantics (z3 one-step induction
over a symbolic pc / return address, bounded reachability, relation equalities over symbolic ids)."""
from __future__ import annotations

import time
from dataclasses import dataclass, field
from typing import Any, Dict, List, Optional, Sequence, Set, Tuple

import z3

from vlib import cfgsem as cs
from vlib import tealsem as ts
from vlib.scheck import Finding, ProgStats
from vlib.tealerio import parse_only, quiet


def _rel(pairs: Sequence[Tuple[int, ...]], *vars_: Any) -> Any:
    if not pairs:
        return z3.BoolVal(False)
    return z3.Or(*[z3.And(*[v == x for v, x in zip(vars_, tup)]) for tup in pairs])


def _in(vals: Sequence[int], v: Any) -> Any:
    vals = list(vals)
    if not vals:
        return z3.BoolVal(False)
    return z3.Or(*[v == x for x in vals])


def dl_reach(n: int, edges: Sequence[Tuple[int, int]], starts: Sequence[int], gs: cs.GSolver) -> Set[int]:
    """Reachability decided by z3's fixedpoint (Datalog) engine: reach(x) is the least relation closed
    under the start facts and the edge rule; complete for the finite graph (no unrolling bound)."""
    import time as _t

    if n == 0 or not starts:
        return set()
    t0 = _t.time()
    fp = z3.Fixedpoint()
    fp.set(engine="datalog")
    S = z3.BitVecSort(16)
    edge = z3.Function("edge", S, S, z3.BoolSort())
    reach = z3.Function("reach", S, z3.BoolSort())
    fp.register_relation(edge, reach)
    x, y = z3.Consts("x y", S)
    fp.declare_var(x, y)
    for a, b in edges:
        fp.fact(edge(z3.BitVecVal(a, 16), z3.BitVecVal(b, 16)))
    for a in starts:
        fp.fact(reach(z3.BitVecVal(a, 16)))
    fp.rule(reach(y), [reach(x), edge(x, y)])
    r = str(fp.query(reach(x)))
    out: Set[int] = set()
    if r == "sat":
        ans = fp.get_answer()
        v0 = z3.Var(0, S)
        for i in range(n):
            if z3.is_true(z3.simplify(z3.substitute(ans, (v0, z3.BitVecVal(i, 16))))):
                out.add(i)
        gs.stats.sat += 1
    elif r == "unsat":
        gs.stats.unsat += 1
    else:
        gs.stats.unknown += 1
    gs.stats.time += _t.time() - t0
    gs.stats.states += n
    gs.stats.transitions += len(edges)
    return out


def intra_edges(p: ts.Prog, follow_calls: bool = False) -> List[Tuple[int, int]]:
    edges: List[Tuple[int, int]] = []
    for i in range(len(p.ins)):
        for j in cs.intra_succ(p, i):
            edges.append((i, j))
        if follow_calls and p.ins[i].op == "callsub":
            edges.append((i, p.labels[p.ins[i].args[0]]))
    return edges


def bmc_reach(p: ts.Prog, starts: Sequence[int], gs: cs.GSolver, follow_calls: bool = False) -> Set[int]:
    return dl_reach(len(p.ins), intra_edges(p, follow_calls), starts, gs)


def check_cfg(src: str, prop: str = "C04", teal: Any = None) -> Tuple[List[Finding], ProgStats, Dict[str, Any]]:
    """C04 on ``parse_teal(src)``: walk (one inductive step), partition, mirror/closure, bz/bnz order."""
    st = ProgStats()
    p = ts.tokenize(src)
    n = len(p.ins)
    t0 = time.time()
    if teal is None:
        try:
            teal = parse_only(src)
        except Exception as ex:  # pylint: disable=broad-except
            # an assembler-valid structured program for which no graph is produced at all
            import traceback

            st.nontrivial = True
            return [Finding(prop, "crash", src, f"parse_teal raised {type(ex).__name__}: {ex} ({traceback.format_exc().strip().splitlines()[-3].strip()})",
                            None, None, None, "crash", None, True)], st, {"states": 0, "transitions": 0, "blocks": 0}
    st.tealer_s = time.time() - t0
    G = cs.TealerGraph(p, teal.bbs)
    gstats = cs.GStats()
    gs = cs.GSolver(gstats)
    findings: List[Finding] = []

    def add(kind: str, what: str, line: Optional[int] = None, obs: Any = None, extra: Any = None) -> None:
        findings.append(Finding(prop, kind, src, what, None, None, line, kind, obs, True, extra or {}))

    # ---- partition: retained <=> reachable (BMC), exactly one block, contiguous ----------------
    starts = [0] + sorted(set(cs.sub_entries(p).values()))
    reach = bmc_reach(p, starts, gs)
    retained_t = set(G.block_of)
    if reach != retained_t:
        miss, extra = sorted(reach - retained_t), sorted(retained_t - reach)
        add("partition:retained", f"retained instructions differ from the reachable ones: reachable but dropped {[p.ins[i].line for i in miss]}, kept but unreachable {[p.ins[i].line for i in extra]}",
            p.ins[(miss + extra)[0]].line)
    if G.dup_pcs:
        add("partition:unique", f"instructions at lines {[p.ins[i].line for i in G.dup_pcs]} belong to more than one block", p.ins[G.dup_pcs[0]].line)
    for k, pcs in enumerate(G.block_pcs):
        if not pcs:
            add("partition:empty", f"block #{k} has no instruction")
        elif pcs != list(range(pcs[0], pcs[0] + len(pcs))):
            add("partition:contiguous", f"block starting at line {p.ins[pcs[0]].line} is not a contiguous run of source instructions: {[p.ins[i].line for i in pcs]}", p.ins[pcs[0]].line)
    order = [b.entry_instr.line for b in teal.bbs]
    if order != sorted(order):
        add("partition:order", f"blocks are not listed in source order: {order}")
    if any(-1 in G.nexts(k) or -1 in G.prevs(k) for k in range(len(G.blocks))):
        add("closure", "a successor/predecessor list names a block outside the graph",
            next(p.ins[G.first[k]].line for k in range(len(G.blocks)) if -1 in G.nexts(k) or -1 in G.prevs(k)))

    # ---- walk: one inductive step from an arbitrary valid state -------------------------------
    pc, pc2, ret = z3.Int("pc"), z3.Int("pc2"), z3.Int("ret")
    step = cs.sem_step_relation(p, z3, pc, pc2, ret, None)
    regions = cs.region_of(p)
    rets = cs.valid_return_addresses(p)
    valid = []
    for i in sorted(reach):
        names = regions.get(i, set())
        allowed: Set[int] = set()
        for nm in names:
            allowed |= set(rets.get(nm, []))
        if p.ins[i].op == "retsub":
            if allowed:
                valid.append(z3.And(pc == i, _in(sorted(allowed), ret)))
        else:
            valid.append(pc == i)
    claim_pairs: List[Tuple[int, int]] = []  # (pc, pc2) allowed by tealer's graph
    claim_ret: List[Tuple[int, int, int]] = []  # (pc, ret, pc2) for retsub
    for k, pcs in enumerate(G.block_pcs):
        for a, b in zip(pcs, pcs[1:]):
            if b == a + 1:
                claim_pairs.append((a, b))
        if not pcs:
            continue
        last = pcs[-1]
        ins = p.ins[last]
        blk = G.blocks[k]
        if ins.op == "callsub":
            try:
                e = blk.called_subroutine.entry
                ek = G.bid.get(id(e), -1)
                if ek >= 0 and G.first[ek] >= 0:
                    claim_pairs.append((last, G.first[ek]))
            except Exception:  # pylint: disable=broad-except
                pass
        elif ins.op == "retsub":
            # after retsub: the block following the matching callsub
            for c in range(n):
                if p.ins[c].op == "callsub" and c in G.block_of:
                    cb = G.blocks[G.block_of[c]]
                    try:
                        rp = cb.sub_return_point
                    except Exception:  # pylint: disable=broad-except
                        rp = None
                    if rp is not None:
                        rk = G.bid.get(id(rp), -1)
                        if rk >= 0 and G.first[rk] >= 0:
                            claim_ret.append((last, c + 1, G.first[rk]))
                    elif c + 1 == n:
                        claim_ret.append((last, n, n))
        else:
            for nk in G.nexts(k):
                if nk >= 0 and G.first[nk] >= 0:
                    claim_pairs.append((last, G.first[nk]))
        if last == n - 1 and ins.op not in ("b", "return", "err", "retsub", "callsub"):
            claim_pairs.append((last, n))  # falling off the end of the program
    if valid:
        gs.s.push()
        gs.s.add(z3.Or(*valid), step)
        gs.s.add(z3.Not(z3.Or(_rel(claim_pairs, pc, pc2), _rel(claim_ret, pc, ret, pc2))))
        # a callsub as the very last instruction returns to "end of program"
        r = gs.check()
        if r == "sat":
            m = gs.s.model()
            a, b = m.eval(pc, True).as_long(), m.eval(pc2, True).as_long()
            rv = m.eval(ret, True).as_long()
            # replay on the concrete stepper
            ok = b in _concrete_succ(p, a, rv)
            f = Finding(prop, "walk", src,
                        f"execution can step from line {p.ins[a].line} ({p.ins[a]!r}) to {'end of program' if b >= n else 'line ' + str(p.ins[b].line)}"
                        f"{' returning to ' + str(rv) if p.ins[a].op == 'retsub' else ''}, which is not a walk in tealer's graph",
                        {"pc": a, "pc2": b, "ret": rv}, None, p.ins[a].line, "walk", None, ok)
            findings.append(f)
        gs.s.pop()
        gstats.states += len(valid)
        gstats.transitions += len(claim_pairs) + len(claim_ret)

    # ---- mirror: b in a.next <=> a in b.prev, for blocks and for instructions -----------------
    nxt = [(a, b) for a in range(len(G.blocks)) for b in G.nexts(a)]
    prv = [(b, a) for a in range(len(G.blocks)) for b in G.prevs(a)]
    A, B = z3.Int("A"), z3.Int("B")
    gs.s.push()
    gs.s.add(_rel(nxt, A, B) != _rel(prv, A, B))
    if gs.check() == "sat":
        m = gs.s.model()
        a, b = m.eval(A, True).as_long(), m.eval(B, True).as_long()
        add("mirror", f"successor/predecessor lists do not mirror each other for blocks at lines "
            f"{p.ins[G.first[a]].line if 0 <= a < len(G.first) and G.first[a] >= 0 else a} -> {p.ins[G.first[b]].line if 0 <= b < len(G.first) and G.first[b] >= 0 else b}",
            p.ins[G.first[a]].line if 0 <= a < len(G.first) and G.first[a] >= 0 else None, {"next": nxt, "prev": prv})
    gs.s.pop()
    iline = {}
    for blk in teal.bbs:
        for ins in blk.instructions:
            iline[id(ins)] = ins.line
    inxt, iprv = [], []
    for blk in teal.bbs:
        for ins in blk.instructions:
            for x in ins.next:
                inxt.append((ins.line, iline.get(id(x), -x.line)))
            for x in ins.prev:
                iprv.append((iline.get(id(x), -x.line), ins.line))
    gs.s.push()
    gs.s.add(_rel(inxt, A, B) != _rel(iprv, A, B))
    if gs.check() == "sat":
        m = gs.s.model()
        a, b = m.eval(A, True).as_long(), m.eval(B, True).as_long()
        add("mirror:instructions", f"Instruction.next/prev do not mirror each other (or name a pruned instruction): lines {a} -> {b}", abs(a))
    gs.s.pop()

    # ---- bz/bnz successor order ------------------------------------------------------------
    for k, pcs in enumerate(G.block_pcs):
        if not pcs:
            continue
        last = pcs[-1]
        ins = p.ins[last]
        if ins.op in ("bz", "bnz"):
            tgt = p.labels[ins.args[0]]
            exp: List[int] = []
            if last + 1 < n:
                exp.append(last + 1)
            if tgt not in exp:
                exp.append(tgt)
            got = [G.first[x] if x >= 0 else -1 for x in G.nexts(k)]
            if got != exp:
                add("branch-order", f"block ending with `{ins.text}` at line {ins.line}: successors start at lines {[p.ins[g].line if 0 <= g < n else g for g in got]}, "
                    f"expected fall-through then jump target {[p.ins[e].line for e in exp]}", ins.line)
    st.queries = {"sat": gstats.sat, "unsat": gstats.unsat, "unknown": gstats.unknown}
    st.solver_s = gstats.time
    st.paths = len(reach)
    st.nontrivial = len(G.blocks) > 1
    return findings, st, {"states": gstats.states, "transitions": gstats.transitions, "blocks": len(G.blocks)}


def _concrete_succ(p: ts.Prog, pc: int, ret: int) -> List[int]:
    """Successors of the concrete control-flow stepper (data ignored: every branch outcome possible)."""
    ins = p.ins[pc]
    n = len(p.ins)
    if ins.op in ("return", "err"):
        return []
    if ins.op == "b":
        return [p.labels[ins.args[0]]]
    if ins.op in ("bz", "bnz"):
        return [pc + 1, p.labels[ins.args[0]]]
    if ins.op in ("switch", "match"):
        return [pc + 1] + [p.labels[a] for a in ins.args]
    if ins.op == "callsub":
        return [p.labels[ins.args[0]]]
    if ins.op == "retsub":
        return [ret]
    return [pc + 1]


# ---------------------------------------------------------------------------------------------
# C05: subroutine, call-site and return-point structure
# ---------------------------------------------------------------------------------------------


def check_subs(src: str, prop: str = "C05", with_function: bool = True) -> Tuple[List[Finding], ProgStats, Dict[str, Any]]:
    st = ProgStats()
    p = ts.tokenize(src)
    n = len(p.ins)
    t0 = time.time()
    teal = parse_only(src)
    G = cs.TealerGraph(p, teal.bbs)
    gstats = cs.GStats()
    gs = cs.GSolver(gstats)
    findings: List[Finding] = []

    def add(kind: str, what: str, line: Optional[int] = None, obs: Any = None) -> None:
        findings.append(Finding(prop, kind, src, what, None, None, line, kind, obs, True))

    def lines_of(blocks: Sequence[Any]) -> List[int]:
        return sorted(b.entry_instr.line for b in blocks)

    entries = cs.sub_entries(p)  # label -> pc of every label targeted by some callsub
    # (1) the labels targeted by callsub instructions, and only those, are subroutines
    if set(teal.subroutines) != set(entries):
        add("subs:names", f"subroutines {sorted(teal.subroutines)} != labels targeted by callsub {sorted(entries)}")
    keep = bmc_reach(p, [0] + sorted(set(entries.values())), gs)
    edges = intra_edges(p)
    start_of = ts.block_start_of(p)
    for name, sub in list(teal.subroutines.items()) + [("__main__", teal.main)]:
        e = 0 if name == "__main__" else entries.get(name)
        if e is None:
            continue
        if sub.entry.entry_instr.line != p.ins[e].line:
            add("subs:entry", f"subroutine {name}: entry block starts at line {sub.entry.entry_instr.line}, expected line {p.ins[e].line}", p.ins[e].line)
        # (2) blocks = reachable from the entry without following calls
        region = dl_reach(n, edges, [e], gs)
        exp_lines = sorted({p.ins[start_of[i]].line for i in region})
        got = lines_of(sub.blocks)
        if got != exp_lines:
            add("subs:blocks", f"subroutine {name}: blocks at lines {got}, expected (reachable from its entry without following calls) {exp_lines}", p.ins[e].line)
        if len(set(id(b) for b in sub.blocks)) != len(sub.blocks):
            add("subs:blocks-dup", f"subroutine {name}: a block is listed twice", p.ins[e].line)
        # (3) exits = retsub blocks and program-terminating blocks
        exp_exit = set()
        for i in region:
            ins = p.ins[i]
            is_last_of_block = (i + 1 >= n) or start_of[i + 1] != start_of[i] or (i + 1 not in region)
            if not is_last_of_block:
                continue
            if ins.op in ("retsub", "return", "err"):
                exp_exit.add(p.ins[start_of[i]].line)
            elif i == n - 1 and ins.op != "b":
                exp_exit.add(p.ins[start_of[i]].line)  # execution can fall off the end of the program here
        got_exit = set(lines_of(sub.exit_blocks))
        if got_exit != exp_exit:
            add("subs:exits", f"subroutine {name}: exit blocks at lines {sorted(got_exit)}, expected {sorted(exp_exit)}", p.ins[e].line)
        got_ret = set(lines_of(sub.retsub_blocks))
        exp_ret = {p.ins[start_of[i]].line for i in region if p.ins[i].op == "retsub"}
        if got_ret != exp_ret:
            add("subs:retsub", f"subroutine {name}: retsub blocks at lines {sorted(got_ret)}, expected {sorted(exp_ret)}", p.ins[e].line)
    # (4) call sites
    sites: Dict[str, List[int]] = {}
    for i in sorted(keep):
        ins = p.ins[i]
        if ins.op != "callsub":
            continue
        sites.setdefault(ins.args[0], []).append(i)
        k = G.block_of.get(i)
        if k is None:
            continue
        blk = G.blocks[k]
        try:
            called = blk.called_subroutine.name
        except Exception as ex:  # pylint: disable=broad-except
            called = f"<{type(ex).__name__}>"
        if called != ins.args[0]:
            add("call:target", f"callsub at line {ins.line}: called_subroutine is {called}, expected {ins.args[0]}", ins.line)
        try:
            rp = blk.sub_return_point
        except Exception as ex:  # pylint: disable=broad-except
            rp = ex
        exp_rp = None if i + 1 >= n else p.ins[i + 1].line
        got_rp = rp.entry_instr.line if hasattr(rp, "entry_instr") else (None if rp is None else repr(rp))
        if got_rp != exp_rp:
            add("call:return-point", f"callsub at line {ins.line}: sub_return_point starts at line {got_rp}, expected {exp_rp}", ins.line)
        if exp_rp is not None and hasattr(rp, "entry_instr"):
            if not rp.is_sub_return_point or rp.callsub_block is not blk:
                add("call:return-point-back", f"block at line {exp_rp} does not point back to its callsub block at line {ins.line}", ins.line)
    for name, sub in teal.subroutines.items():
        exp_callers = sorted(p.ins[start_of[i]].line for i in sites.get(name, []))
        if lines_of(sub.caller_blocks) != exp_callers or len(sub.caller_blocks) != len(exp_callers):
            add("tables:callers", f"subroutine {name}: caller blocks at lines {lines_of(sub.caller_blocks)}, expected {exp_callers}")
        exp_rps = sorted(p.ins[i + 1].line for i in sites.get(name, []) if i + 1 < n)
        if lines_of(sub.return_point_blocks) != exp_rps:
            add("tables:return-points", f"subroutine {name}: return point blocks at lines {lines_of(sub.return_point_blocks)}, expected {exp_rps}")
    # (5) call graph: f -> g iff a retained callsub in f targets g
    regions = cs.region_of(p)
    exp_graph: Dict[str, Set[str]] = {name: set() for name in entries}
    for name, ss in sites.items():
        for i in ss:
            for f in regions.get(i, set()):
                exp_graph.setdefault(name, set()).add(f)
    try:
        from tealer.printers.call_graph import PrinterCallGraph

        with quiet():
            got_graph = PrinterCallGraph(teal)._construct_call_graph()  # pylint: disable=protected-access
        if {k: set(v) for k, v in got_graph.items()} != exp_graph:
            add("call-graph", f"call graph {dict((k, sorted(v)) for k, v in got_graph.items())}, expected callers {dict((k, sorted(v)) for k, v in exp_graph.items())}")
    except (ImportError, AttributeError):
        pass
    # (6) the function-level tables
    if with_function and n <= 400:
        from vlib.tealerio import build_function

        try:
            fn = build_function(teal, ["B0"], "f")
        except Exception as ex:  # pylint: disable=broad-except
            fn = None
            add("function:build", f"construct_function raised {type(ex).__name__}: {ex}")
        if fn is not None:
            main_region = cs.reach(p, 0)
            # subroutines used by the function = reachable through calls from main
            used: Set[str] = set()
            work = [i for i in main_region if p.ins[i].op == "callsub"]
            while work:
                i = work.pop()
                nm = p.ins[i].args[0]
                if nm not in used:
                    used.add(nm)
                    work += [j for j in cs.reach(p, entries[nm]) if p.ins[j].op == "callsub"]
            if set(fn.subroutines) != used:
                add("function:subs", f"function subroutines {sorted(fn.subroutines)}, expected {sorted(used)}")
            live = set(main_region)
            for nm in used:
                live |= cs.reach(p, entries[nm])
            for nm in used & set(fn.subroutines):
                sub = fn.subroutines[nm]
                exp_c = sorted(p.ins[start_of[i]].line for i in sites.get(nm, []) if i in live)
                exp_r = sorted(p.ins[i + 1].line for i in sites.get(nm, []) if i in live and i + 1 < n)
                try:
                    got_c, got_r = lines_of(fn.caller_blocks(sub)), lines_of(fn.return_point_blocks(sub))
                except Exception as ex:  # pylint: disable=broad-except
                    add("function:accessor-raised", f"Function.caller_blocks / return_point_blocks({nm}) raised {type(ex).__name__}: {ex}")
                    continue
                if got_c != exp_c:
                    add("function:callers", f"Function.caller_blocks({nm}) at lines {got_c}, expected {exp_c}")
                if got_r != exp_r:
                    add("function:return-points", f"Function.return_point_blocks({nm}) at lines {got_r}, expected {exp_r}")
    st.tealer_s = time.time() - t0 - gstats.time
    st.queries = {"sat": gstats.sat, "unsat": gstats.unsat, "unknown": gstats.unknown}
    st.solver_s = gstats.time
    st.nontrivial = bool(entries)
    return findings, st, {"states": gstats.states, "transitions": gstats.transitions, "subs": len(entries)}


# ---------------------------------------------------------------------------------------------
# C20: the regex engine reports exactly the reachable occurrences
# ---------------------------------------------------------------------------------------------


def _itext(ins: ts.Ins) -> str:
    return " ".join([ins.op] + ins.args) if ins.op != "label:" else ins.args[0] + ":"


def regex_edges(p: ts.Prog) -> Tuple[List[Tuple[int, int]], List[Tuple[int, int]]]:
    """(E0, E1): E0 = instruction-level flow that does not cross a call (no edge out of a callsub);
    E1 = the union of both readings: a callsub continues at the next line, and in the callee, and every
    retsub continues at every return point of its subroutine."""
    n = len(p.ins)
    e0: List[Tuple[int, int]] = []
    e1: List[Tuple[int, int]] = []
    regions = cs.region_of(p)
    rets = cs.valid_return_addresses(p)
    for i in range(n):
        ins = p.ins[i]
        for j in cs.intra_succ(p, i):
            e1.append((i, j))
            if ins.op != "callsub":
                e0.append((i, j))
        if ins.op == "callsub":
            e1.append((i, p.labels[ins.args[0]]))
        if ins.op == "retsub":
            for nm in regions.get(i, set()):
                for r in rets.get(nm, []):
                    if r < n:
                        e1.append((i, r))
    return e0, e1


def chain_from(p: ts.Prog, i: int, m: int) -> Optional[List[int]]:
    """The m instructions starting at i in straight-line code: each but the last has exactly one successor."""
    out = [i]
    for _ in range(m - 1):
        succ = cs.intra_succ(p, out[-1])
        if len(succ) != 1:
            return None
        out.append(succ[0])
    return out


def regex_patterns(p: ts.Prog, max_len: int) -> List[List[str]]:
    """Patterns drawn from the program itself: straight-line chains, textually adjacent windows that are
    not chains, an overlapping pattern and an absent one."""
    pats: List[Tuple[str, ...]] = []
    n = len(p.ins)
    for i in range(n):
        if p.ins[i].op == "#pragma":
            continue
        for m in range(1, max_len + 1):
            ch = chain_from(p, i, m)
            if ch is not None and all(p.ins[j].op != "#pragma" for j in ch):
                pats.append(tuple(_itext(p.ins[j]) for j in ch))
            if i + m <= n:
                pats.append(tuple(_itext(p.ins[j]) for j in range(i, i + m)))
    pats.append(("int 424242",))
    pats.append(("int 1", "int 424242"))
    seen = []
    for t in pats:
        if t not in seen:
            seen.append(t)
    return [list(t) for t in seen]


def check_regex(src: str, prop: str = "C20", max_len: int = 2, max_patterns: int = 40) -> Tuple[List[Finding], ProgStats, Dict[str, Any]]:
    from tealer.utils.regex.regex import match_regex, parse_regex

    st = ProgStats()
    p = ts.tokenize(src)
    n = len(p.ins)
    teal = parse_only(src)
    gstats = cs.GStats()
    gs = cs.GSolver(gstats)
    findings: List[Finding] = []
    e0, e1 = regex_edges(p)
    r0 = [(b, a) for a, b in e0]
    r1 = [(b, a) for a, b in e1]
    line_to_pc = {ins.line: ins.idx for ins in p.ins}
    keep = cs.retained(p)
    labels = ["*"] + [l for l, pc in p.labels.items() if pc in keep]
    pats = regex_patterns(p, max_len)[:max_patterns]
    only_through_call = 0
    n_checked = 0
    for lab in labels:
        start = 0 if lab == "*" else p.labels[lab]
        f0 = dl_reach(n, e0, [start], gs)
        f1 = dl_reach(n, e1, [start], gs)
        for pat in pats:
            n_checked += 1
            text = f"{lab} =>\n" + "\n".join(pat) + "\n"
            try:
                with quiet():
                    matches, covered = match_regex(teal, parse_regex(text))
            except Exception as ex:  # pylint: disable=broad-except
                findings.append(Finding(prop, "regex:crash", src, f"match_regex raised {type(ex).__name__}: {ex} for {text!r}", None, None, None, "crash", None, True, {"regex": text}))
                continue
            occ = []
            for i in sorted(keep):
                ch = chain_from(p, i, len(pat))
                if ch is not None and [_itext(p.ins[j]) for j in ch] == pat:
                    occ.append(ch)
            must = [ch for ch in occ if ch[0] in f0]
            may = [ch for ch in occ if ch[0] in f1]
            only_through_call += len(may) - len(must)
            got = []
            bad_shape = False
            for mt in matches:
                pcs = [line_to_pc.get(ins.line, -1) for ins in mt]
                got.append(pcs)
            got_sorted = sorted(got)
            if any(g not in may for g in got):
                bad = [g for g in got if g not in may][0]
                findings.append(Finding(prop, "regex:spurious", src,
                                        f"label {lab}, pattern {pat}: reported match at lines {[p.ins[j].line if 0 <= j < n else j for j in bad]} is not a reachable straight-line occurrence",
                                        None, None, p.ins[bad[0]].line if 0 <= bad[0] < n else None, "match", [[p.ins[j].line for j in g if 0 <= j < n] for g in got], True, {"regex": text}))
            if any(m_ not in got for m_ in must):
                miss = [m_ for m_ in must if m_ not in got][0]
                findings.append(Finding(prop, "regex:missed", src,
                                        f"label {lab}, pattern {pat}: the occurrence at lines {[p.ins[j].line for j in miss]} is reachable from the label but not reported",
                                        None, None, p.ins[miss[0]].line, "match", [[p.ins[j].line for j in g if 0 <= j < n] for g in got], True, {"regex": text}))
            if len(got_sorted) != len({tuple(g) for g in got}):
                findings.append(Finding(prop, "regex:duplicate", src, f"label {lab}, pattern {pat}: a match is reported twice", None, None, None, "match", None, True, {"regex": text}))
            # covered
            cov = {line_to_pc.get(ins.line, -1) for ins in covered}
            starts_got = sorted({g[0] for g in got if g and g[0] >= 0})
            if starts_got:
                b0 = dl_reach(n, r0, starts_got, gs)
                b1 = dl_reach(n, r1, starts_got, gs)
                match_ins = {j for g in got for j in g}
                lower = (f0 & b0) - match_ins - {start}
                upper = (f1 & b1) | match_ins | {start}
                if not lower <= cov:
                    miss_c = sorted(lower - cov)
                    findings.append(Finding(prop, "regex:covered-missing", src,
                                            f"label {lab}, pattern {pat}: instructions at lines {[p.ins[j].line for j in miss_c]} lie on a path from the label to a match but are not marked covered",
                                            None, None, p.ins[miss_c[0]].line, "covered", sorted(p.ins[j].line for j in cov if 0 <= j < n), True, {"regex": text}))
                if not cov <= upper:
                    extra_c = sorted(cov - upper)
                    findings.append(Finding(prop, "regex:covered-extra", src,
                                            f"label {lab}, pattern {pat}: instructions at lines {[p.ins[j].line if 0 <= j < n else j for j in extra_c]} are marked covered but lie on no path from the label to a match",
                                            None, None, None, "covered", sorted(p.ins[j].line for j in cov if 0 <= j < n), True, {"regex": text}))
            elif cov:
                findings.append(Finding(prop, "regex:covered-extra", src, f"label {lab}, pattern {pat}: no match but {len(cov)} instructions marked covered", None, None, None, "covered", None, True, {"regex": text}))
    # dedupe by kind: one finding per kind and program is enough for a verdict
    uniq: Dict[str, Finding] = {}
    for f in findings:
        uniq.setdefault(f.kind, f)
    st.queries = {"sat": gstats.sat, "unsat": gstats.unsat, "unknown": gstats.unknown}
    st.solver_s = gstats.time
    st.nontrivial = n_checked > 0
    return list(uniq.values()), st, {"states": gstats.states, "transitions": gstats.transitions, "regex_runs": n_checked, "only_through_call": only_through_call}


# ---------------------------------------------------------------------------------------------
# C02: every reported path is a genuine, unvalidated accepting path
# ---------------------------------------------------------------------------------------------


def path_realisable_z3(p: ts.Prog, firsts: List[int], lasts: List[int], gs: cs.GSolver) -> Tuple[bool, str]:
    """One z3 query: is there a run of the control-flow semantics (with its call stack) whose block
    sequence is exactly the given one, starting at pc 0, ending where execution can terminate, and
    visiting no block twice within one subroutine activation?"""
    n = len(p.ins)
    k = len(firsts)
    s = gs.s
    s.push()
    depth = [z3.Int(f"d{i}") for i in range(k)]
    act = [z3.Int(f"a{i}") for i in range(k)]
    nact = [z3.Int(f"na{i}") for i in range(k)]
    rstack = [z3.Array(f"rs{i}", z3.IntSort(), z3.IntSort()) for i in range(k)]
    astack = [z3.Array(f"as{i}", z3.IntSort(), z3.IntSort()) for i in range(k)]
    why = ""
    s.add(depth[0] == 0, act[0] == 0, nact[0] == 1)
    ok_static = firsts[0] == 0
    if not ok_static:
        why = "does not start at the entry"
    for i in range(k - 1):
        a, b = lasts[i], firsts[i + 1]
        op = p.ins[a].op
        if op == "callsub":
            s.add(z3.BoolVal(b == p.labels[p.ins[a].args[0]]))
            s.add(rstack[i + 1] == z3.Store(rstack[i], depth[i], a + 1), astack[i + 1] == z3.Store(astack[i], depth[i], act[i]))
            s.add(depth[i + 1] == depth[i] + 1, act[i + 1] == nact[i], nact[i + 1] == nact[i] + 1)
        elif op == "retsub":
            s.add(depth[i] > 0, z3.Select(rstack[i], depth[i] - 1) == b)
            s.add(depth[i + 1] == depth[i] - 1, act[i + 1] == z3.Select(astack[i], depth[i] - 1), nact[i + 1] == nact[i])
            s.add(rstack[i + 1] == rstack[i], astack[i + 1] == astack[i])
        else:
            s.add(z3.BoolVal(b in cs.intra_succ(p, a)))
            s.add(depth[i + 1] == depth[i], act[i + 1] == act[i], nact[i + 1] == nact[i], rstack[i + 1] == rstack[i], astack[i + 1] == astack[i])
    lastop = p.ins[lasts[-1]].op
    terminal = lastop in ("return", "err") or (lasts[-1] == n - 1 and lastop not in ("b", "callsub", "retsub"))
    s.add(z3.BoolVal(terminal), z3.BoolVal(ok_static))
    for i in range(k):
        for j in range(i + 1, k):
            if firsts[i] == firsts[j]:
                s.add(act[i] != act[j])
    r = gs.check()
    s.pop()
    return r == "sat", why


def path_realisable_concrete(p: ts.Prog, firsts: List[int], lasts: List[int]) -> bool:
    """The same judgement by direct simulation (the replay of the z3 verdict)."""
    n = len(p.ins)
    if not firsts or firsts[0] != 0:
        return False
    stack: List[Tuple[int, int]] = []
    act, nact = 0, 1
    seen = {(firsts[0], 0)}
    for i in range(len(firsts) - 1):
        a, b = lasts[i], firsts[i + 1]
        op = p.ins[a].op
        if op == "callsub":
            if b != p.labels[p.ins[a].args[0]]:
                return False
            stack.append((a + 1, act))
            act, nact = nact, nact + 1
        elif op == "retsub":
            if not stack or stack[-1][0] != b:
                return False
            _, act = stack.pop()
        else:
            if b not in cs.intra_succ(p, a):
                return False
        if (b, act) in seen:
            return False
        seen.add((b, act))
    lastop = p.ins[lasts[-1]].op
    return lastop in ("return", "err") or (lasts[-1] == n - 1 and lastop not in ("b", "callsub", "retsub"))


def check_paths(src: str, prop: str = "C02", unroll: int = 2, detectors: Optional[Sequence[str]] = None) -> Tuple[List[Finding], ProgStats, Dict[str, Any]]:
    from vlib import scheck as sc
    from vlib.tealerio import Run

    p = ts.tokenize(src)
    n = len(p.ins)
    dets = list(detectors or sc.DETECTOR_PROJECTIONS)
    t0 = time.time()
    run = Run(src, detectors=dets)
    view = sc.FreeDetectorView(src, unroll, dets)
    st = view.st
    st.tealer_s = time.time() - t0
    gstats = cs.GStats()
    gs = cs.GSolver(gstats)
    line_to_pc = {ins.line: ins.idx for ins in p.ins}
    findings: List[Finding] = []
    npaths = 0
    multi = sc.multi_site_subs(p)
    try:
        for det in dets:
            paths = run.paths[det]
            if not paths:
                continue
            seen_paths = set()
            out = run.outputs[det]
            js = [o.to_json() for o in out]
            jpaths = [jp for j in js for jp in j["paths"]]
            if sum(j["count"] for j in js) != len(paths) or len(jpaths) != len(paths):
                findings.append(Finding(prop, "render:count", src, f"{det}: JSON lists {len(jpaths)} paths / count {sum(j['count'] for j in js)} for {len(paths)} reported paths", None, None, None, det, None, True))
            for pi, path in enumerate(paths):
                npaths += 1
                st.nontrivial = True
                firsts = [line_to_pc.get(b.entry_instr.line, -1) for b in path]
                lasts = [line_to_pc.get(b.exit_instr.line, -1) for b in path]
                lines = [b.entry_instr.line for b in path]
                key = tuple(firsts)
                if key in seen_paths:
                    findings.append(Finding(prop, "duplicate", src, f"{det}: path {' -> '.join(str(b.idx) for b in path)} is reported twice", None, lines, None, det, None, True))
                seen_paths.add(key)
                if -1 in firsts or -1 in lasts:
                    findings.append(Finding(prop, "unreal:synthetic", src, f"{det}: reported path contains a block that is not in the program", None, lines, None, det, None, True))
                    continue
                ok, _why = path_realisable_z3(p, firsts, lasts, gs)
                if not ok:
                    rep = not path_realisable_concrete(p, firsts, lasts)
                    findings.append(Finding(prop, "unreal", src,
                                            f"{det}: reported path {' -> '.join(str(b.idx) for b in path)} (lines {lines}) is not an execution path: wrong start, a step that is no "
                                            "control-flow edge, a retsub that does not return to its own callsub, an end inside a call / at a non-terminating block, or a block repeated in one activation",
                                            None, lines, None, det, None, rep))
                    continue
                # no block at which the dangerous value is excluded (block-level, per field)
                for i_proj in range(len(sc.DETECTOR_PROJECTIONS[det])):
                    adm, inside, _paths, _ex = view.projection(det, i_proj)
                    if _ex.incomplete:
                        continue  # exploration cut by a depth / budget bound: "excluded" cannot be concluded
                    adm_ci = None
                    for b, pc in zip(path, firsts):
                        a = adm.get(pc, False)
                        if not a and (inside.get(pc) or _inside_multi(p, pc, multi)):
                            if adm_ci is None:
                                adm_ci = view.projection(det, i_proj, True)[0]
                            a = adm_ci.get(pc, False)
                        if not a:
                            gov = sc.DETECTOR_PROJECTIONS[det][i_proj][0]
                            findings.append(Finding(prop, "excluded-block", src,
                                                    f"{det}: reported path {' -> '.join(str(x.idx) for x in path)} contains the block at line {b.entry_instr.line} at which "
                                                    f"no accepting direct-check path admits the dangerous value of {'/'.join(gov)}", None, lines, b.entry_instr.line, det, None, True))
                            break
                # renderings (not solver-decided; compared on the real objects)
                short = " -> ".join(str(b.idx) for b in path)
                if pi < len(jpaths):
                    jp = jpaths[pi]
                    blocks_ok = len(jp["blocks"]) == len(path) and all(
                        len(jb) == len(b.instructions) and all(t == f"{ins.line}: {ins}" for t, ins in zip(jb, b.instructions)) for jb, b in zip(jp["blocks"], path))
                    if jp["short"] != short or not blocks_ok:
                        findings.append(Finding(prop, "render", src, f"{det}: JSON rendering of path {short} is {jp['short']!r} / block lists {'match' if blocks_ok else 'differ'}", None, lines, None, det, None, True))
                if out and hasattr(type(out[0]), "_short_notation") and type(out[0])._short_notation(path) != short:  # pylint: disable=protected-access
                    findings.append(Finding(prop, "render:short", src, f"{det}: short notation differs for {short}", None, lines, None, det, None, True))
    except ts.Unsupported as e:
        st.skipped = f"unsupported opcode {e}"
    for k_ in ("sat", "unsat", "unknown"):
        st.queries[k_] += getattr(gstats, k_)
    st.solver_s += gstats.time
    uniq: Dict[str, Finding] = {}
    for f in findings:
        uniq.setdefault(f.kind + ":" + f.claim, f)
    return list(uniq.values()), st, {"reported_paths": npaths, "states": npaths, "transitions": npaths}


def _inside_multi(p: ts.Prog, pc: int, multi: Set[int]) -> bool:
    """pc lies in the code region of a subroutine that is (transitively) reachable from a multi-site subroutine."""
    if not multi:
        return False
    entries = cs.sub_entries(p)
    # regions reachable through calls from each multi-site subroutine
    work = list(multi)
    seen: Set[int] = set()
    while work:
        e = work.pop()
        if e in seen:
            continue
        seen.add(e)
        reg = cs.reach(p, e)
        if pc in reg:
            return True
        for i in reg:
            if p.ins[i].op == "callsub":
                work.append(p.labels[p.ins[i].args[0]])
    return False
