"""Bounded-exhaustive generator of TEAL programs (the stated bound on "all programs").

A program is a *shape* (statements with condition holes) + *conditions* (trees over atoms) +
*layout*.  Everything here is deterministic; there is no random sampling.  The quick tier uses a
``VERIF_SEED``-selected slice of the thorough family (see ``slice_of``).
"""
from __future__ import annotations

import itertools
from dataclasses import dataclass, field
from typing import Any, Dict, Iterable, Iterator, List, Optional, Sequence, Tuple

A1 = "AAAAAAAAAAAAAAAAAAAAAAAAAAAAAAAAAAAAAAAAAAAAAAAAAAAQVOI2O4"  # some non-zero valid-looking literals
A2 = "AAAAAAAAAAAAAAAAAAAAAAAAAAAAAAAAAAAAAAAAAAAAAAAAAAARD7J5DQ"
ZERO = "AAAAAAAAAAAAAAAAAAAAAAAAAAAAAAAAAAAAAAAAAAAAAAAAAAAAY5HFKQ"

OPS = ("==", "!=", "<", "<=", ">", ">=")
OPAQUE_FIELDS = ("Amount", "FirstValid", "LastValid", "AssetAmount", "NumAppArgs", "Lease", "XferAsset")


# ---------------------------------------------------------------------------------------------
# conditions
# ---------------------------------------------------------------------------------------------


@dataclass(frozen=True)
class Atom:
    ref: Tuple  # ("txn",F) ("gtxn",i,F) ("gtxns_int",i,F) ("gtxns_rel",k,F) ("global","GroupSize")
    op: str
    const: Tuple  # ("int",v) ("pushint",v) ("intc",v) ("named",name) ("addr",A) ("zero",) ("creator",) ("hex",v) ("oct",v)
    order: str = "fc"  # "fc": field pushed first; "cf": constant pushed first
    shuffle: str = ""  # "", "dup_pop", "swap2", "swap1" (see emit)


@dataclass(frozen=True)
class Opaque:
    n: int = 0  # which opaque source


@dataclass(frozen=True)
class Not:
    c: Any


@dataclass(frozen=True)
class And:
    a: Any
    b: Any


@dataclass(frozen=True)
class Or:
    a: Any
    b: Any


@dataclass(frozen=True)
class Bare:
    """A bare field used as a condition (e.g. `txn ApplicationID; bz create`)."""

    ref: Tuple


# ---------------------------------------------------------------------------------------------
# statements
# ---------------------------------------------------------------------------------------------


@dataclass(frozen=True)
class Check:
    cond: Any
    how: str  # "assert" | "bz_reject" | "bnz_ok" | "return"


@dataclass(frozen=True)
class If:
    cond: Any
    then: Tuple
    els: Tuple
    via: str = "bz"  # "bz" | "bnz"


@dataclass(frozen=True)
class Loop:
    kind: str  # "counter" | "opaque"
    body: Tuple
    n: int = 2


@dataclass(frozen=True)
class Call:
    sub: str


@dataclass(frozen=True)
class Exit:
    kind: str  # "approve" | "err" | "reject" | "falloff"


@dataclass(frozen=True)
class Use:
    kind: str  # "gtxn_read" | "gtxns_read" | "pad" | "rel_read"
    n: int = 0


@dataclass(frozen=True)
class Raw:
    lines: Tuple[str, ...]
    terminates: bool = False


@dataclass
class Program:
    main: Tuple
    subs: Dict[str, Tuple] = field(default_factory=dict)
    version: int = 8
    subs_first: bool = False
    name: str = ""


def terminates(seq: Sequence[Any]) -> bool:
    if not seq:
        return False
    last = seq[-1]
    if isinstance(last, Exit):
        return True
    if isinstance(last, Check) and last.how == "return":
        return True
    if isinstance(last, If):
        return terminates(last.then) and terminates(last.els)
    if isinstance(last, Raw):
        return last.terminates
    return False


# ---------------------------------------------------------------------------------------------
# emitter
# ---------------------------------------------------------------------------------------------


class Emitter:
    def __init__(self, prog: Program):
        self.prog = prog
        self.lines: List[str] = []
        self.nlabel = 0
        self.intc: List[int] = []
        self.intc_dup: Dict[Tuple[str, int], int] = {}
        self.scope = "m"
        self.rej_used: Dict[str, bool] = {}

    def label(self, stem: str) -> str:
        self.nlabel += 1
        return f"{stem}{self.nlabel}"

    def emit(self, *ls: str) -> None:
        self.lines.extend(ls)

    # -- operands -----------------------------------------------------------------------------
    def ref(self, r: Tuple) -> List[str]:
        k = r[0]
        if k == "txn":
            return [f"txn {r[1]}"]
        if k == "gtxn":
            return [f"gtxn {r[1]} {r[2]}"]
        if k == "gtxns_int":
            return [f"int {r[1]}", f"gtxns {r[2]}"]
        if k == "gtxns_rel":
            off = r[1]
            return ["txn GroupIndex", f"int {abs(off)}", "+" if off >= 0 else "-", f"gtxns {r[2]}"]
        if k == "gtxns_rel_sw":  # int k; txn GroupIndex; +
            return [f"int {r[1]}", "txn GroupIndex", "+", f"gtxns {r[2]}"]
        if k == "global":
            return [f"global {r[1]}"]
        raise ValueError(r)

    def const(self, c: Tuple) -> List[str]:
        k = c[0]
        if k == "int":
            return [f"int {c[1]}"]
        if k == "pushint":
            return [f"pushint {c[1]}"]
        if k == "hex":
            return [f"int 0x{c[1]:x}"]
        if k == "oct":
            return [f"int 0{c[1]:o}"]
        if k == "named":
            return [f"int {c[1]}"]
        if k == "intc":
            if c[1] not in self.intc:
                self.intc.append(c[1])
            i = self.intc.index(c[1])
            return [f"intc_{i}" if i < 4 and c[-1] != "long" else f"intc {i}"]
        if k == "intcd":
            # a constant block that repeats values (legal TEAL): [v + 1, v + 1, v] is appended and the LAST slot is used
            key = ("dup", c[1])
            if key not in self.intc_dup:
                self.intc_dup[key] = len(self.intc) + 2
                d = (c[1] + 1) % 2**64
                self.intc += [d, d, c[1]]
            return [f"intc {self.intc_dup[key]}"]
        if k == "addr":
            return [f"addr {c[1]}"]
        if k == "zero":
            return ["global ZeroAddress"]
        if k == "creator":
            return ["global CreatorAddress"]
        raise ValueError(c)

    def cond(self, c: Any) -> List[str]:
        if isinstance(c, Atom):
            f, k = self.ref(c.ref), self.const(c.const)
            if c.shuffle == "dup_pop":
                f = f + ["dup", "pop"]
            first, second = (f, k) if c.order == "fc" else (k, f)
            out = first + second
            if c.shuffle == "swap2":
                out += ["swap", "swap"]
            elif c.shuffle == "swap1":
                # pushes in the other order and swaps: same semantics as `first op second`
                out = second + first + ["swap"]
            return out + [c.op]
        if isinstance(c, Opaque):
            return [f"txn {OPAQUE_FIELDS[c.n % len(OPAQUE_FIELDS)]}"]
        if isinstance(c, Bare):
            return self.ref(c.ref)
        if isinstance(c, Not):
            return self.cond(c.c) + ["!"]
        if isinstance(c, And):
            return self.cond(c.a) + self.cond(c.b) + ["&&"]
        if isinstance(c, Or):
            return self.cond(c.a) + self.cond(c.b) + ["||"]
        raise ValueError(c)

    # -- statements ---------------------------------------------------------------------------
    def rej(self) -> str:
        self.rej_used[self.scope] = True
        return f"rej_{self.scope}"

    def seq(self, stmts: Sequence[Any]) -> None:
        for s in stmts:
            self.stmt(s)

    def stmt(self, s: Any) -> None:  # pylint: disable=too-many-branches
        if isinstance(s, Check):
            self.emit(*self.cond(s.cond))
            if s.how == "assert":
                self.emit("assert")
            elif s.how == "bz_reject":
                self.emit(f"bz {self.rej()}")
            elif s.how == "bnz_ok":
                l = self.label("ok")
                self.emit(f"bnz {l}", "err", f"{l}:")
            elif s.how == "return":
                self.emit("return")
            else:
                raise ValueError(s.how)
        elif isinstance(s, If):
            self.emit(*self.cond(s.cond))
            other, end = self.label("alt"), self.label("end")
            if s.via == "bz":
                first, second = s.then, s.els
                self.emit(f"bz {other}")
            else:
                first, second = s.els, s.then
                self.emit(f"bnz {other}")
            self.seq(first)
            need_end = not terminates(first)
            if need_end:
                self.emit(f"b {end}")
            self.emit(f"{other}:")
            self.seq(second)
            if need_end:
                self.emit(f"{end}:")
        elif isinstance(s, Loop):
            top, end = self.label("loop"), self.label("done")
            if s.kind == "counter":
                slot = 10 + self.nlabel % 5
                self.emit("int 0", f"store {slot}", f"{top}:", f"load {slot}", f"int {s.n}", "<", f"bz {end}")
                self.seq(s.body)
                self.emit(f"load {slot}", "int 1", "+", f"store {slot}", f"b {top}", f"{end}:")
            elif s.kind == "dowhile":
                # the body comes first: a body that starts with a call makes the loop header a callsub block
                self.emit(f"{top}:")
                self.seq(s.body)
                self.emit(f"txn {OPAQUE_FIELDS[(3 + self.nlabel) % len(OPAQUE_FIELDS)]}", f"bnz {top}")
            else:
                self.emit(f"{top}:", f"txn {OPAQUE_FIELDS[(3 + self.nlabel) % len(OPAQUE_FIELDS)]}", f"bz {end}")
                self.seq(s.body)
                self.emit(f"b {top}", f"{end}:")
        elif isinstance(s, Call):
            self.emit(f"callsub {s.sub}")
        elif isinstance(s, Exit):
            if s.kind == "approve":
                self.emit("int 1", "return")
            elif s.kind == "err":
                self.emit("err")
            elif s.kind == "reject":
                self.emit("int 0", "return")
            elif s.kind == "falloff":
                self.emit("int 1")
            else:
                raise ValueError(s.kind)
        elif isinstance(s, Use):
            if s.kind == "gtxn_read":
                self.emit(f"gtxn {s.n} Amount", "pop")
            elif s.kind == "gtxns_read":
                self.emit(f"int {s.n}", "gtxns Amount", "pop")
            elif s.kind == "rel_read":
                self.emit("txn GroupIndex", f"int {abs(s.n)}", "+" if s.n >= 0 else "-", "gtxns Amount", "pop")
            elif s.kind == "pad":
                self.emit("int 7", "pop")
            else:
                raise ValueError(s.kind)
        elif isinstance(s, Raw):
            self.emit(*s.lines)
        else:
            raise ValueError(s)

    def body(self, scope: str, stmts: Sequence[Any], is_sub: bool) -> None:
        self.scope = scope
        self.seq(stmts)
        if is_sub and not terminates(stmts):
            self.emit("retsub")
        if self.rej_used.get(scope):
            if not is_sub and not terminates(stmts):
                raise ValueError("main must terminate before its reject block")
            self.emit(f"rej_{scope}:", "err")

    def text(self) -> str:
        p = self.prog
        head = [f"#pragma version {p.version}"]
        chunks: List[List[str]] = []
        if p.subs_first and p.subs:
            self.lines = []
            self.emit("b main_start")
            for name, stmts in p.subs.items():
                self.emit(f"{name}:")
                self.body(name, stmts, True)
            self.emit("main_start:")
            self.body("m", p.main, False)
        else:
            self.lines = []
            self.body("m", p.main, False)
            if p.subs and not terminates(p.main) and not self.rej_used.get("m"):
                raise ValueError("main falls through into a subroutine")
            for name, stmts in p.subs.items():
                self.emit(f"{name}:")
                self.body(name, stmts, True)
        body = self.lines
        if self.intc:
            head.append("intcblock " + " ".join(str(v) for v in self.intc))
        return "\n".join(head + body) + "\n"


def emit(prog: Program) -> str:
    return Emitter(prog).text()


# ---------------------------------------------------------------------------------------------
# shape enumeration
# ---------------------------------------------------------------------------------------------

HOLE = "HOLE"


def fill(obj: Any, conds: List[Any]) -> Any:
    """Replace HOLE markers (left to right) by the given conditions."""
    it = iter(conds)

    def go(o: Any) -> Any:
        if o == HOLE:
            return next(it)
        if isinstance(o, Check):
            return Check(go(o.cond), o.how)
        if isinstance(o, If):
            return If(go(o.cond), tuple(go(x) for x in o.then), tuple(go(x) for x in o.els), o.via)
        if isinstance(o, Loop):
            return Loop(o.kind, tuple(go(x) for x in o.body), o.n)
        if isinstance(o, tuple):
            return tuple(go(x) for x in o)
        return o

    return go(obj)


def count_holes(obj: Any) -> int:
    if obj == HOLE:
        return 1
    if isinstance(obj, Check):
        return count_holes(obj.cond)
    if isinstance(obj, If):
        return count_holes(obj.cond) + sum(count_holes(x) for x in obj.then) + sum(count_holes(x) for x in obj.els)
    if isinstance(obj, Loop):
        return sum(count_holes(x) for x in obj.body)
    if isinstance(obj, tuple):
        return sum(count_holes(x) for x in obj)
    return 0


def seqs(budget: int, depth: int, subs: Sequence[str], must_end: bool, in_loop: bool = False,
         hows: Sequence[str] = ("assert", "bz_reject", "bnz_ok", "return"),
         allow_loop: bool = True) -> Iterator[Tuple]:
    """All statement sequences with at most ``budget`` statements (holes for governed conditions).

    must_end: the sequence has to terminate (main body).
    """
    if budget == 0:
        if not must_end:
            yield ()
        return
    # the empty sequence
    if not must_end:
        yield ()
    for first, cost in _stmts(budget, depth, subs, in_loop, hows, allow_loop):
        if terminates((first,)):
            yield (first,)
            continue
        for rest in seqs(budget - cost, depth, subs, must_end, in_loop, hows, allow_loop):
            yield (first,) + rest


def _stmts(budget: int, depth: int, subs: Sequence[str], in_loop: bool, hows: Sequence[str], allow_loop: bool) -> Iterator[Tuple[Any, int]]:
    for how in hows:
        yield Check(HOLE, how), 1
    for k in ("approve", "err"):
        yield Exit(k), 1
    for s in subs:
        yield Call(s), 1
    if depth > 0 and budget >= 2:
        for cond in (HOLE, Opaque(1)):
            for via in ("bz", "bnz"):
                for nthen in range(0, budget):
                    for then in _seqs_exact(nthen, depth - 1, subs, in_loop, hows):
                        for nels in range(0, budget - nthen):
                            for els in _seqs_exact(nels, depth - 1, subs, in_loop, hows):
                                if not then and not els:
                                    continue
                                yield If(cond, then, els, via), 1 + nthen + nels
        if allow_loop and not in_loop:
            for kind in ("counter", "opaque", "dowhile"):
                for nb in range(1, budget):
                    for body in _seqs_exact(nb, depth - 1, subs, True, ("assert", "bz_reject")):
                        if terminates(body):
                            continue
                        yield Loop(kind, body), 1 + nb


def _seqs_exact(n: int, depth: int, subs: Sequence[str], in_loop: bool, hows: Sequence[str]) -> Iterator[Tuple]:
    """Sequences of simple statements (no nesting below) with exactly n statements."""
    if n == 0:
        yield ()
        return
    simple: List[Any] = [Check(HOLE, h) for h in hows] + [Exit("approve"), Exit("err")] + [Call(s) for s in subs]
    for combo in itertools.product(simple, repeat=n):
        ok = True
        for i, s in enumerate(combo[:-1]):
            if terminates((s,)):
                ok = False
                break
        if ok:
            yield tuple(combo)


def slice_of(items: Sequence[Any], seed: int, parts: int = 16) -> List[Any]:
    """Deterministic 1/parts slice chosen by the seed (quick tier)."""
    k = seed % parts
    return [x for i, x in enumerate(items) if i % parts == k]


# ---------------------------------------------------------------------------------------------
# alphabets
# ---------------------------------------------------------------------------------------------

GS_CONSTS_FULL = tuple(range(0, 18))
GS_CONSTS_SMALL = (0, 1, 2, 15, 16, 17)
FEE_CONSTS = (0, 1, 1000, 271999, 272000, 272001, 2**64 - 1)


def int_const_spellings(v: int) -> List[Tuple]:
    return [("int", v), ("pushint", v), ("intc", v), ("hex", v), ("oct", v), ("intcd", v)]


def int_atoms(ref: Tuple, consts: Iterable[int], ops: Sequence[str] = OPS, orders: Sequence[str] = ("fc", "cf"),
              spellings: Sequence[str] = ("int",)) -> List[Atom]:
    out = []
    for c in consts:
        for op in ops:
            for o in orders:
                for sp in spellings:
                    out.append(Atom(ref, op, (sp, c), o))
    return out


def addr_atoms(ref: Tuple, comparands: Sequence[Tuple] = (("zero",), ("addr", A1), ("addr", ZERO), ("creator",))) -> List[Atom]:
    out = []
    for c in comparands:
        for op in ("==", "!="):
            for o in ("fc", "cf"):
                out.append(Atom(ref, op, c, o))
    return out


TYPE_NAMES = ("pay", "keyreg", "acfg", "axfer", "afrz", "appl")
OC_NAMES = ("NoOp", "OptIn", "CloseOut", "ClearState", "UpdateApplication", "DeleteApplication")


def kind_atoms(ref_maker: Any = lambda f: ("txn", f), numeric: bool = True, named: bool = True,
               out_of_range: bool = False) -> List[Atom]:
    out = []
    for op in ("==", "!="):
        for o in ("fc", "cf"):
            if named:
                for n in TYPE_NAMES:
                    out.append(Atom(ref_maker("TypeEnum"), op, ("named", n), o))
                for n in OC_NAMES:
                    out.append(Atom(ref_maker("OnCompletion"), op, ("named", n), o))
            if numeric:
                for v in range(1, 7):
                    out.append(Atom(ref_maker("TypeEnum"), op, ("int", v), o))
                for v in range(0, 6):
                    out.append(Atom(ref_maker("OnCompletion"), op, ("int", v), o))
                for v in (0, 1):
                    out.append(Atom(ref_maker("ApplicationID"), op, ("int", v), o))
            if out_of_range:
                for v in (0, 7):
                    out.append(Atom(ref_maker("TypeEnum"), op, ("int", v), o))
                out.append(Atom(ref_maker("OnCompletion"), op, ("int", 6), o))
    return out


def cond_variants(atom: Any, level: int = 1) -> List[Any]:
    """Condition trees around one governed atom (depth <= 2)."""
    out = [atom, Not(atom)]
    if level >= 1:
        out += [And(atom, Opaque(0)), Or(atom, Opaque(0)), And(Opaque(0), atom), Not(Not(atom))]
    if level >= 2:
        out += [Not(And(atom, Opaque(0))), Not(Or(atom, Opaque(0))), Or(Not(atom), Opaque(0)), And(Not(atom), Opaque(0))]
    return out


# ---------------------------------------------------------------------------------------------
# families
# ---------------------------------------------------------------------------------------------

SUB_BODIES_SMALL: Tuple[Tuple, ...] = (
    (),
    (Check(HOLE, "assert"),),
    (Check(HOLE, "bz_reject"),),
    (Exit("approve"),),
    (If(HOLE, (Exit("approve"),), (), "bz"),),
    (If(Opaque(2), (Check(HOLE, "assert"),), (), "bnz"),),
)


def hole_fillings(nholes: int, atoms: Sequence[Any], max_governed: int) -> Iterator[List[Any]]:
    """Assign governed conditions to at most ``max_governed`` holes, opaque conditions to the rest."""
    if nholes == 0:
        yield []
        return
    base = [Opaque(i) for i in range(nholes)]
    for i in range(nholes):
        for a in atoms:
            f = list(base)
            f[i] = a
            yield f
    if max_governed >= 2 and nholes >= 2:
        for i in range(nholes):
            for j in range(i + 1, nholes):
                for a in atoms:
                    for b in atoms:
                        f = list(base)
                        f[i], f[j] = a, b
                        yield f


def shape_programs(budget: int, atoms: Sequence[Any], max_governed: int = 1, with_subs: bool = True,
                   depth: int = 1, version: int = 8) -> Iterator[Tuple[str, Program]]:
    """Programs from all main shapes with <= budget statements (and one subroutine with a small body)."""
    n = 0
    configs: List[Tuple[Tuple[str, ...], Tuple[Tuple, ...]]] = [((), ((),))]
    if with_subs:
        configs.append((("s1",), SUB_BODIES_SMALL))
    for subs, bodies in configs:
        for main in seqs(budget, depth, subs, True):
            if subs and not _calls(main, "s1"):
                continue
            for body in bodies if subs else ((),):
                shape = (main, body)
                nh = count_holes(shape)
                for filling in hole_fillings(nh, atoms, max_governed):
                    m, b = fill(shape, filling)
                    n += 1
                    yield f"shape{budget}-{n}", Program(m, {"s1": b} if subs else {}, version)
                    if subs and n % 3 == 0:
                        yield f"shape{budget}-{n}f", Program(m, {"s1": b}, version, subs_first=True)


def _calls(obj: Any, name: str) -> bool:
    if isinstance(obj, Call):
        return obj.sub == name
    if isinstance(obj, If):
        return _calls(obj.then, name) or _calls(obj.els, name)
    if isinstance(obj, Loop):
        return _calls(obj.body, name)
    if isinstance(obj, tuple):
        return any(_calls(x, name) for x in obj)
    return False


def one_check_programs(conds: Sequence[Any], hows: Sequence[str] = ("assert", "bz_reject", "bnz_ok", "return"),
                       version: int = 8, pre: Tuple = (), post: Tuple = ()) -> Iterator[Tuple[str, Program]]:
    for i, c in enumerate(conds):
        for how in hows:
            main = pre + (Check(c, how),) + (() if how == "return" else post + (Exit("approve"),))
            yield f"one-{i}-{how}", Program(main, {}, version)


def layout_programs(cond: Any, cond2: Optional[Any] = None) -> List[Tuple[str, str]]:
    """Hand-written layouts the test-suite does not contain (returned as program text).

    ``cond`` is emitted through the normal emitter, so every family can plant its own governed check.
    """
    e = Emitter(Program(()))
    c = e.cond(cond)
    c2 = e.cond(cond2) if cond2 is not None else e.cond(Opaque(4))
    head = ["#pragma version 8"] + (["intcblock " + " ".join(map(str, e.intc))] if e.intc else [])
    J = "\n".join

    def prog(lines: List[str]) -> str:
        return J(head + lines) + "\n"

    out = []
    # a branch to the very next line
    out.append(("bz-to-next", prog(c + ["bz nxt", "nxt:", "int 1", "return"])))
    out.append(("bnz-to-next", prog(c + ["bnz nxt", "nxt:", "int 1", "return"])))
    # branch as last instruction
    out.append(("bnz-last", prog(["b start", "ok:", "int 1", "return", "start:"] + c + ["bnz ok"])))
    out.append(("bz-last", prog(["b start", "ok:", "int 1", "return", "start:"] + c + ["bz ok"])))
    # ... where falling off the end after the branch approves (one non-zero value on the stack)
    out.append(("bnz-last-falloff", prog(["b start", "ok:", "int 1", "return", "start:", "int 1"] + c + ["bnz ok"])))
    out.append(("bz-last-falloff", prog(["b start", "no:", "err", "start:", "int 1"] + c + ["bz no"])))
    out.append(("callsub-last-returns", prog(["b start", "sub:"] + c + ["assert", "retsub", "start:", "int 1", "callsub sub"])))
    # callsub as the last instruction; callee approves itself
    out.append(("callsub-last", prog(["b start", "sub:"] + c + ["assert", "int 1", "return", "start:", "callsub sub"])))
    # a label directly after a callsub that is also a jump target
    out.append(("retpoint-jump-target", prog(
        c2 + ["bnz skip"] + c + ["assert", "callsub sub", "skip:", "int 1", "return", "sub:", "retsub"])))
    out.append(("retpoint-jump-target-2", prog(
        c + ["bz skip", "callsub sub", "skip:", "int 1", "return", "sub:", "retsub"])))
    # a subroutine that approves internally while the return point rejects / checks
    out.append(("callee-approves", prog(["callsub sub", "err", "sub:"] + c + ["assert", "int 1", "return"])))
    out.append(("callee-approves-2", prog(["callsub sub"] + c + ["assert", "int 1", "return", "sub:"] + c2 + ["bz back", "int 1", "return", "back:", "retsub"])))
    # unreachable code that branches / calls into live code
    out.append(("dead-branch-into-live", prog(c + ["assert", "b fin", "dead:"] + c2 + ["bnz fin", "b fin2", "fin:", "int 1", "return", "fin2:", "int 1", "return"])))
    out.append(("dead-call-into-live", prog(["callsub sub"] + c + ["assert", "int 1", "return", "dead:", "callsub sub", "err", "sub:", "retsub"])))
    # back-to-back labels and an empty subroutine
    out.append(("back-to-back-labels", prog(c + ["bz l1", "b l2", "l1:", "l2:", "int 1", "return"])))
    out.append(("empty-sub", prog(["callsub sub"] + c + ["assert", "int 1", "return", "sub:", "retsub"])))
    # shared subroutine from two call sites, check inside the callee / before one site only
    out.append(("shared-sub-check-inside", prog(
        c2 + ["bz other", "callsub chk", "int 1", "return", "other:", "callsub chk", "int 1", "return", "chk:"] + c + ["assert", "retsub"])))
    out.append(("shared-sub-check-one-site", prog(
        c2 + ["bz other"] + c + ["assert", "callsub nop", "int 1", "return", "other:", "callsub nop", "int 1", "return", "nop:", "retsub"])))
    out.append(("shared-sub-check-after-return", prog(
        c2 + ["bz other", "callsub nop"] + c + ["assert", "int 1", "return", "other:", "callsub nop", "int 1", "return", "nop:", "retsub"])))
    # nested calls and recursion
    out.append(("nested-calls", prog(["callsub a", "int 1", "return", "a:", "callsub b", "retsub", "b:"] + c + ["assert", "retsub"])))
    out.append(("recursion", prog(["callsub r", "int 1", "return", "r:"] + c2 + ["bz done", "callsub r", "done:"] + c + ["assert", "retsub"])))
    # loop with the check inside / after
    out.append(("loop-check-inside", prog(["int 0", "store 1", "top:", "load 1", "int 2", "<", "bz out"] + c + ["assert", "load 1", "int 1", "+", "store 1", "b top", "out:", "int 1", "return"])))
    out.append(("loop-check-after", prog(["top:"] + c2 + ["bz out", "b top", "out:"] + c + ["assert", "int 1", "return"])))
    # do-while loops whose header block ends with a call; the callee may approve itself or return
    out.append(("dowhile-call", prog(["top:", "callsub sub"] + c2 + ["bnz top", "int 1", "return", "sub:"] + c + ["bz back", "int 1", "return", "back:", "retsub"])))
    out.append(("dowhile-call-2", prog(["int 0", "top:", "callsub sub", "int 1", "+", "dup", "int 3", "<", "bnz top", "pop"] + c + ["assert", "int 1", "return", "sub:"] + c2 + ["bz back", "int 1", "return", "back:", "retsub"])))
    out.append(("loop-call-in-body", prog(["top:"] + c2 + ["bz out", "callsub sub", "b top", "out:", "int 1", "return", "sub:"] + c + ["bz back", "int 1", "return", "back:", "retsub"])))
    # a shared helper called from the loop body and again after the loop; the check guards the loop body only
    out.append(("shared-sub-loop-then-call", prog(["top:"] + c2 + ["bz done"] + c + ["assert", "callsub step", "b top", "done:", "callsub step", "int 1", "return", "step:", "int 7", "pop", "retsub"])))
    out.append(("shared-sub-loop-then-call-bnz", prog(["top:"] + c2 + ["bnz body", "callsub step", "int 1", "return", "body:"] + c + ["assert", "callsub step", "b top", "step:", "int 7", "pop", "retsub"])))
    # a shared helper with two different continuations: the first call site's continuation checks, the second approves
    out.append(("shared-sub-two-continuations", prog(["txn NumAppArgs", "bz second", "callsub helper"] + c + ["assert", "int 1", "return", "second:", "callsub helper", "int 1", "return", "helper:", "int 7", "pop", "retsub"])))
    out.append(("shared-sub-two-continuations-2", prog(["callsub helper"] + c2 + ["bz second"] + c + ["assert", "int 1", "return", "second:", "callsub helper", "int 1", "return", "helper:", "int 7", "pop", "retsub"])))
    # switch / match dispatch
    out.append(("switch", prog(["txn NumAppArgs", "switch a b", "err", "a:"] + c + ["assert", "int 1", "return", "b:", "int 1", "return"])))
    out.append(("match", prog(["int 3", "int 5", "txn NumAppArgs", "match a b", "err", "a:"] + c + ["assert", "int 1", "return", "b:", "int 1", "return"])))
    # a switch / match that names the same label twice (one handler, two edges)
    out.append(("switch-repeated-label", prog(["txn NumAppArgs", "switch a a", "err", "a:"] + c + ["assert", "int 1", "return"])))
    out.append(("match-repeated-label", prog(["int 3", "int 5", "txn NumAppArgs", "match a a b", "err", "a:"] + c + ["assert", "int 1", "return", "b:", "int 1", "return"])))
    # approving `return` whose value comes from a constant block the tool cannot resolve (not in the entry block / two blocks / index beyond)
    out.append(("late-intcblock-return", prog(c + ["assert", "b fin", "fin:", "intcblock 1 0", "intc_0", "return"])))
    out.append(("two-intcblocks-return", prog(["intcblock 0 1"] + c + ["bz other", "intcblock 1 0", "intc_0", "return", "other:", "intc_1", "return"])))
    out.append(("late-intcblock-reject", prog(c + ["bz rej", "int 1", "return", "rej:", "intcblock 0 7", "intc_0", "return"])))
    # the same check twice on one path (join of two arms, both checked)
    out.append(("both-arms-check", prog(c2 + ["bz other"] + c + ["assert", "b join", "other:"] + c + ["assert", "join:", "int 1", "return"])))
    out.append(("one-arm-check", prog(c2 + ["bz other"] + c + ["assert", "b join", "other:", "join:", "int 1", "return"])))
    # condition computed before the block that consumes it (cross-block operand)
    out.append(("cross-block-operand", prog(c[:-1] + ["b nxt", "nxt:", c[-1], "assert", "int 1", "return"])))
    # stack shuffles between producer and comparison
    out.append(("dup-pop", prog(c[:-1] + ["dup", "pop", c[-1], "assert", "int 1", "return"])))
    out.append(("swap-swap", prog(c[:-1] + ["swap", "swap", c[-1], "assert", "int 1", "return"])))
    out.append(("store-load", prog(c + ["store 3", "load 3", "assert", "int 1", "return"])))
    out.append(("select", prog(["int 0"] + c + ["int 1", "select", "pop", "int 1", "return"])))
    return out


# ---------------------------------------------------------------------------------------------
# meaning-preserving textual noise (C15): every variant is validated against the semantics on its own
# ---------------------------------------------------------------------------------------------


def noisy(src: str, k: int) -> str:
    """Comments, blank lines, indentation, trailing comments, renamed labels, re-spelled integers."""
    import re as _re

    lines = src.splitlines()
    labels = [l[:-1] for l in (x.strip() for x in lines) if l.endswith(":") and " " not in l]
    out: List[str] = []
    for i, raw in enumerate(lines):
        line = raw
        toks = line.split()
        if not toks:
            out.append(line)
            continue
        if toks[0] != "#pragma":
            # rename labels (definitions and references)
            for lab in labels:
                new = f"L_{lab}_x{k}"
                if line.strip() == lab + ":":
                    line = new + ":"
                else:
                    line = _re.sub(rf"(?<=\s){_re.escape(lab)}(?=\s|$)", new, line)
            toks = line.split()
            # re-spell decimal integer immediates of int / pushint
            if toks[0] in ("int", "pushint") and len(toks) == 2 and toks[1].isdigit() and (i + k) % 3 == 0:
                v = int(toks[1])
                line = f"{toks[0]} " + (f"0x{v:x}" if (i + k) % 2 == 0 else (f"0{v:o}" if v else "0"))
            if (i + k) % 4 == 1:
                out.append("")
            if (i + k) % 5 == 2:
                out.append("  // a comment line with int 5 and bnz nowhere")
            indent = ["", "  ", "\t", "    "][(i + k) % 4]
            trail = ["", " // trailing", "", "   "][(i + 2 * k) % 4]
            line = indent + line + trail
        out.append(line)
    return "\n".join(out) + "\n"
