"""Bounded-exhaustive enumeration of control-flow layouts (family "layouts" / "calls" of DESIGN.md section 3).

A program is a sequence of slots over the control alphabet
    P (plain)  Lj (label j)  Bj (b)  Zj (bz)  Nj (bnz)  Cj (callsub)  R (retsub)  T (return)  E (err)
    Sjk (switch j k)  Mjk (match j k)
with every label defined exactly once (labels are numbered in order of definition), every referenced
label defined, and subroutine bodies entered only through callsub (``cfgsem.is_structured``).
"""
from __future__ import annotations

import itertools
from typing import Iterator, List, Sequence, Tuple

from vlib import cfgsem, tealsem as ts


def slot_text(slot: str) -> List[str]:
    k = slot[0]
    if k == "P":
        return ["int 1"]
    if k == "Q":
        return ["pop"]
    if k == "L":
        return [f"l{slot[1]}:"]
    if k == "B":
        return [f"b l{slot[1]}"]
    if k == "Z":
        return [f"bz l{slot[1]}"]
    if k == "N":
        return [f"bnz l{slot[1]}"]
    if k == "C":
        return [f"callsub l{slot[1]}"]
    if k == "R":
        return ["retsub"]
    if k == "T":
        return ["return"]
    if k == "E":
        return ["err"]
    if k == "S":
        return [f"switch l{slot[1]} l{slot[2]}"]
    if k == "M":
        return [f"match l{slot[1]} l{slot[2]}"]
    raise ValueError(slot)


def render(slots: Sequence[str], version: int = 8) -> str:
    lines = [f"#pragma version {version}"]
    for s in slots:
        lines.extend(slot_text(s))
    return "\n".join(lines) + "\n"


def sequences(length: int, max_labels: int, with_switch: bool = True, with_match: bool = False) -> Iterator[Tuple[str, ...]]:
    """All slot sequences of exactly ``length`` with at most ``max_labels`` labels (canonical numbering)."""

    def refs(m: int) -> List[str]:
        out = []
        for j in range(m):
            out += [f"B{j}", f"Z{j}", f"N{j}", f"C{j}"]
        if with_switch:
            for j in range(m):
                for k in range(m):
                    out.append(f"S{j}{k}")
        if with_match:
            for j in range(m):
                for k in range(m):
                    out.append(f"M{j}{k}")
        return out

    for m in range(0, max_labels + 1):
        base = ["P", "R", "T", "E"] + refs(m)
        # positions of the m label definitions (in order 0..m-1)
        for pos in itertools.combinations(range(length), m):
            others = [i for i in range(length) if i not in pos]
            for combo in itertools.product(base, repeat=len(others)):
                seq: List[str] = [""] * length
                for j, pidx in enumerate(pos):
                    seq[pidx] = f"L{j}"
                used = set()
                for i, s in zip(others, combo):
                    seq[i] = s
                    if s[0] in "BZNC":
                        used.add(int(s[1]))
                    elif s[0] in "SM":
                        used.add(int(s[1]))
                        used.add(int(s[2]))
                if m and len(used) < m:
                    continue  # every label is referenced at least once (unreferenced labels add nothing new)
                yield tuple(seq)


def valid_programs(length: int, max_labels: int, **kw) -> Iterator[Tuple[str, str]]:
    for seq in sequences(length, max_labels, **kw):
        src = render(seq)
        p = ts.tokenize(src)
        if not cfgsem.is_structured(p):
            continue
        yield "".join(seq), src


# ---------------------------------------------------------------------------------------------
# call-graph shaped programs (family "calls")
# ---------------------------------------------------------------------------------------------


def callgraph_program(k: int, edges: Sequence[Tuple[int, int]], subs_first: bool = False, loop_calls: bool = False,
                      dead_caller: bool = False, last_call: bool = False) -> str:
    """Program with main (node 0) and subroutines 1..k; ``edges`` (f, g) = f contains `callsub s<g>`.

    loop_calls: the calls of main sit inside a loop; dead_caller: an unreachable block calls every
    subroutine; last_call: the last instruction of the program is a callsub (no return point)."""
    def body(f: int) -> List[str]:
        out: List[str] = []
        calls = [g for (a, g) in edges if a == f]
        if f == 0 and loop_calls and calls:
            out += ["top:", "txn Amount", "bz after"]
            out += [f"callsub s{g}" for g in calls]
            out += ["b top", "after:"]
        else:
            for i, g in enumerate(calls):
                if i % 2 == 1:
                    out += ["txn Amount", f"bz skip_{f}_{i}", f"callsub s{g}", f"skip_{f}_{i}:"]
                else:
                    out.append(f"callsub s{g}")
        return out

    main = body(0) + ["int 1", "return"]
    subs: List[str] = []
    for s in range(1, k + 1):
        subs += [f"s{s}:"] + body(s) + ["retsub"]
    dead: List[str] = []
    if dead_caller:
        dead = ["dead:"] + [f"callsub s{s}" for s in range(1, k + 1)] + ["err"]
    lines = ["#pragma version 8"]
    if subs_first:
        lines += ["b main"] + subs + dead + ["main:"] + main
    else:
        lines += main + dead + subs
    if last_call and k >= 1:
        # re-order so that the final instruction of the program is a call
        lines = ["#pragma version 8", "b main"] + subs + ["main:"] + body(0) + [f"callsub s{k}"]
    return "\n".join(lines) + "\n"


def callgraph_family(max_k_full: int = 2, patterns_k: Sequence[int] = (3, 4, 5, 6), slice_k3: Tuple[int, int] = (0, 16)) -> Iterator[Tuple[str, str]]:
    """All call matrices for k <= max_k_full, a slice of k = 3, structured patterns for larger k."""
    for k in range(1, max_k_full + 1):
        cand = [(f, g) for f in range(0, k + 1) for g in range(1, k + 1)]
        for mask in range(1 << len(cand)):
            edges = [cand[i] for i in range(len(cand)) if mask >> i & 1]
            for variant, kw in (("a", {}), ("f", {"subs_first": True}), ("l", {"loop_calls": True}), ("d", {"dead_caller": True}), ("c", {"last_call": True})):
                yield f"cg{k}-{mask}-{variant}", callgraph_program(k, edges, **kw)
    cand = [(f, g) for f in range(0, 4) for g in range(1, 4)]
    sel, parts = slice_k3
    for mask in range(1 << len(cand)):
        if mask % parts != sel % parts:
            continue
        edges = [cand[i] for i in range(len(cand)) if mask >> i & 1]
        yield f"cg3-{mask}-a", callgraph_program(3, edges)
        if mask % 5 == 0:
            yield f"cg3-{mask}-d", callgraph_program(3, edges, dead_caller=True)
    for k in patterns_k:
        chain = [(i, i + 1) for i in range(k)]
        star = [(0, g) for g in range(1, k + 1)]
        shared = [(0, g) for g in range(1, k)] + [(g, k) for g in range(1, k)]
        cycle = chain + [(k, 1)]
        selfrec = star + [(g, g) for g in range(1, k + 1)]
        tree = [(0, 1)] + [(g, 2 * g) for g in range(1, k + 1) if 2 * g <= k] + [(g, 2 * g + 1) for g in range(1, k + 1) if 2 * g + 1 <= k]
        for nm, edges in (("chain", chain), ("star", star), ("shared", shared), ("cycle", cycle), ("selfrec", selfrec), ("tree", tree)):
            for variant, kw in (("a", {}), ("f", {"subs_first": True}), ("l", {"loop_calls": True}), ("d", {"dead_caller": True}), ("c", {"last_call": True})):
                yield f"cg{k}-{nm}-{variant}", callgraph_program(k, edges, **kw)
