"""Diff of two more solvers on SMT-LIB dumps of engine-S queries (run in the thorough tier on a sample)."""
from __future__ import annotations

import os
import subprocess
import tempfile
from typing import Dict, List, Tuple


def run_binary(cmd: List[str], path: str, timeout: int = 60) -> str:
    try:
        r = subprocess.run(cmd + [path], capture_output=True, text=True, timeout=timeout)
    except subprocess.TimeoutExpired:
        return "timeout"
    out = (r.stdout + r.stderr).strip().splitlines()
    if any("(error" in l for l in out):
        return "error"
    for l in out:
        if l.strip() in ("sat", "unsat", "unknown"):
            return l.strip()
    return "error"


def cross_check(dumps: List[Tuple[str, str]]) -> Dict[str, object]:
    """dumps: (smt2 text, answer of the z3 python API).  Returns counts and the disagreements."""
    res = {"queries": 0, "z3_4_8_12": {"agree": 0, "other": 0}, "cvc5": {"agree": 0, "other": 0}, "disagreements": []}
    d = tempfile.mkdtemp(prefix="verif_smt_")
    try:
        for i, (text, expected) in enumerate(dumps):
            path = os.path.join(d, f"q{i}.smt2")
            with open(path, "w") as f:
                f.write("(set-logic ALL)\n" + text + "\n(check-sat)\n" if "(check-sat)" not in text else text)
            res["queries"] += 1  # type: ignore[operator]
            for name, cmd in (("z3_4_8_12", ["/usr/bin/z3", "-T:60"]), ("cvc5", ["cvc5", "--tlimit=60000"])):
                got = run_binary(cmd, path)
                if got == expected:
                    res[name]["agree"] += 1  # type: ignore[index]
                elif got in ("sat", "unsat"):
                    res["disagreements"].append({"solver": name, "expected": expected, "got": got, "query": i})  # type: ignore[union-attr]
                else:
                    res[name]["other"] += 1  # type: ignore[index]
    finally:
        subprocess.run(["rm", "-rf", d], check=False)
    return res
