"""Diff of two more solvers (z3 4.8.12 binary, cvc5 1.0 binary) on SMT-LIB dumps of the queries the checks discharge
with the z3 Python API (thorough tier, sampled by vlib/smtdump.py).  A definite opposite answer is a harness error."""
from __future__ import annotations

import concurrent.futures
import glob
import os
import shutil
import subprocess
from typing import Any, Dict, List, Tuple


def run_binary(cmd: List[str], path: str, timeout: int = 90) -> str:
    try:
        r = subprocess.run(cmd + [path], capture_output=True, text=True, timeout=timeout)
    except subprocess.TimeoutExpired:
        return "timeout"
    except FileNotFoundError:
        return "missing"
    out = (r.stdout + r.stderr).strip().splitlines()
    if any("(error" in l for l in out):
        return "error"
    for l in out:
        if l.strip() in ("sat", "unsat", "unknown"):
            return l.strip()
    return "error"


SOLVERS = (("z3_4_8_12", ["/usr/bin/z3", "-T:60"]), ("cvc5_1_0", ["cvc5", "--tlimit=60000"]))


def _one(path: str) -> Tuple[str, str, Dict[str, str]]:
    with open(path) as f:
        first = f.readline()
        body = f.read()
    expected = first.split(":")[-1].strip()
    if "(check-sat)" not in body:
        body += "\n(check-sat)\n"
    q = path[:-5] + "_q.smt2"
    with open(q, "w") as f:
        f.write("(set-logic ALL)\n" + body)
    got = {name: run_binary(cmd, q) for name, cmd in SOLVERS}
    return path, expected, got


def begin(tag: str, work: str, every: int = 97, per_process: int = 40) -> str:
    d = os.path.join(work, "smt_" + tag)
    shutil.rmtree(d, ignore_errors=True)
    os.makedirs(d, exist_ok=True)
    os.environ["VERIF_SMT_DUMP"] = d
    os.environ["VERIF_SMT_DUMP_EVERY"] = str(every)
    os.environ["VERIF_SMT_DUMP_MAX"] = str(per_process)
    return d


def end(d: str, limit: int = 400, jobs: int = 16) -> Dict[str, Any]:
    os.environ.pop("VERIF_SMT_DUMP", None)
    files = sorted(f for f in glob.glob(os.path.join(d, "*.smt2")) if not f.endswith("_q.smt2"))
    step = max(1, len(files) // limit)
    files = files[::step][:limit]
    res: Dict[str, Any] = {"dumped": len(glob.glob(os.path.join(d, "*.smt2"))), "queries": 0, "disagreements": [], "expected": {"sat": 0, "unsat": 0}}
    for name, _ in SOLVERS:
        res[name] = {"agree": 0, "unknown_timeout_error": 0}
    with concurrent.futures.ThreadPoolExecutor(max_workers=jobs) as pool:
        for path, expected, got in pool.map(_one, files):
            res["queries"] += 1
            res["expected"][expected] = res["expected"].get(expected, 0) + 1
            for name, g in got.items():
                if g == expected:
                    res[name]["agree"] += 1
                elif g in ("sat", "unsat"):
                    with open(path) as f:
                        text = f.read()
                    res["disagreements"].append({"solver": name, "z3_api": expected, "got": g, "query": text[:4000]})
                else:
                    res[name]["unknown_timeout_error"] += 1
    shutil.rmtree(d, ignore_errors=True)
    return res
