"""tealer's per-block contexts rendered as z3 formulas over the variables of engine S."""
from __future__ import annotations

from typing import Any, Dict, List, Optional, Sequence, Tuple

import z3

from vlib import tealsem as ts
from vlib.tealsem import ADDR_CREATOR, ADDR_ZERO, MAX_GROUP, MAX_UINT64

ADDR_CTX_ATTR = {
    "RekeyTo": "rekeyto",
    "CloseRemainderTo": "closeto",
    "AssetCloseTo": "assetcloseto",
    "Sender": "sender",
}
MAX_TRANSACTION_COST = 272000  # 16 * (700 * 20 + ...) as used by tealer; read from tealer at run time too


def _kind_names() -> Dict[str, Any]:
    from tealer.utils.teal_enums import TealerTransactionType as T

    return {"Pay": T.Pay, "Axfer": T.Axfer, "Upd": T.ApplUpdateApplication, "Del": T.ApplDeleteApplication}


def addr_claim(dom: Any, val: Any, t: Any, fname: str, addr_tab: Dict[str, int]) -> Optional[Any]:
    """any_addr or F(t) == zero or F(t) in possible_addr.  None = nothing claimed (trivially true)."""
    if val.any_addr:
        return None
    f = dom.field(fname, t)
    alts = [f == ADDR_ZERO]
    for a in val.possible_addr:
        if a == "CREATOR_ADDRESS":
            alts.append(f == ADDR_CREATOR)
        elif a in addr_tab:
            alts.append(f == addr_tab[a])
        elif a.startswith("SOME_ADDRESS"):
            return None  # a run-time address: outside the claim (documented heuristic)
        elif a in ("ANY_ADDRESS",):
            return None
        elif a == "NO_ADDRESS":
            continue
        else:
            # an address literal the oracle did not see in the program text: cannot happen for
            # programs tokenized from the same text; be conservative
            return None
    return z3.Or(*alts)


def kinds_claim(dom: Any, types: Sequence[Any], t: Any, which: str = "all") -> Optional[Any]:
    """The four implications of C07; which in {"all", "nonappl" (Pay, Axfer), "appl" (Update, Delete)}."""
    K = _kind_names()
    te, oc = dom.field("TypeEnum", t), dom.field("OnCompletion", t)
    parts = []
    if which in ("all", "nonappl"):
        if K["Pay"] not in types:
            parts.append(te != 1)
        if K["Axfer"] not in types:
            parts.append(te != 4)
    if which in ("all", "appl"):
        if K["Upd"] not in types:
            parts.append(z3.Not(z3.And(te == 6, oc == 4)))
        if K["Del"] not in types:
            parts.append(z3.Not(z3.And(te == 6, oc == 5)))
    if not parts:
        return None
    return z3.And(*parts)


def fee_claim(dom: Any, ctx: Any, t: Any) -> Optional[Any]:
    if ctx.max_fee_unknown:
        return None
    if ctx.max_fee >= MAX_UINT64:
        return None
    return dom.field("Fee", t) <= ctx.max_fee


def ctx_claims(dom: Any, ctx: Any, t: Any, addr_tab: Dict[str, int], keys: Sequence[str], tag: str) -> List[Tuple[str, Any]]:
    """Claims of one BlockTransactionContext about the transaction at slot term t."""
    out: List[Tuple[str, Any]] = []
    if "kinds" in keys:
        for which in ("nonappl", "appl"):
            c = kinds_claim(dom, ctx.transaction_types, t, which)
            if c is not None:
                out.append((tag + f"transaction_types[{which}]", c))
    if "fee" in keys:
        c = fee_claim(dom, ctx, t)
        if c is not None:
            out.append((tag + "max_fee", c))
    for fname, attr in ADDR_CTX_ATTR.items():
        if fname in keys:
            c = addr_claim(dom, getattr(ctx, attr), t, fname, addr_tab)
            if c is not None:
                out.append((tag + attr, c))
    return out


def block_claims(
    dom: Any,
    run: Any,
    block: Any,
    addr_tab: Dict[str, int],
    keys: Sequence[str] = ("gs", "gi", "kinds", "fee", "RekeyTo", "CloseRemainderTo", "AssetCloseTo", "Sender"),
    gtxn: bool = False,
) -> List[Tuple[str, Any]]:
    """All claims tealer makes at ``block`` (plain context; optionally the gtxn/abs/rel contexts)."""
    ctx = run.ctx(block)
    out: List[Tuple[str, Any]] = []
    if "gs" in keys and len(ctx.group_sizes) < MAX_GROUP:
        out.append(("group_sizes", z3.Or(*[dom.gs == v for v in ctx.group_sizes]) if ctx.group_sizes else z3.BoolVal(False)))
    if "gi" in keys and len(ctx.group_indices) < MAX_GROUP:
        out.append(("group_indices", z3.Or(*[dom.gi == v for v in ctx.group_indices]) if ctx.group_indices else z3.BoolVal(False)))
    out.extend(ctx_claims(dom, ctx, dom.gi, addr_tab, keys, ""))
    if gtxn:
        for i in range(MAX_GROUP):
            for tag, c in ctx_claims(dom, ctx.gtxn_context(i), dom.gi, addr_tab, keys, f"gtxn_context({i})."):
                out.append((tag, z3.Implies(dom.gi == i, c)))
            for tag, c in ctx_claims(dom, ctx.absolute_context(i), z3.IntVal(i), addr_tab, keys, f"absolute_context({i})."):
                out.append((tag, z3.Implies(i < dom.gs, c)))
        for k in range(-(MAX_GROUP - 1), MAX_GROUP):
            if k == 0:
                continue
            t = dom.gi + k
            for tag, c in ctx_claims(dom, ctx.relative_context(k), t, addr_tab, keys, f"relative_context({k})."):
                out.append((tag, z3.Implies(z3.And(t >= 0, t < dom.gs), c)))
    return out


def is_default_tail(ctx: Any) -> bool:
    from tealer.utils.teal_enums import ALL_TRANSACTION_TYPES

    return (
        set(ctx.transaction_types) == set(ALL_TRANSACTION_TYPES)
        and ctx.max_fee >= MAX_UINT64
        and not ctx.max_fee_unknown
        and all(getattr(ctx, a).any_addr for a in ADDR_CTX_ATTR.values())
    )


def is_empty_tail(ctx: Any) -> bool:
    return (
        not ctx.transaction_types
        and ctx.max_fee == 0
        and not ctx.max_fee_unknown
        and all((not getattr(ctx, a).any_addr) and not getattr(ctx, a).possible_addr for a in ADDR_CTX_ATTR.values())
    )


def describe_ctx(ctx: Any) -> Dict[str, Any]:
    d = {
        "transaction_types": sorted(str(t) for t in ctx.transaction_types),
        "max_fee": ctx.max_fee,
        "max_fee_unknown": ctx.max_fee_unknown,
    }
    if not ctx.is_gtxn_context:
        d["group_sizes"] = sorted(ctx.group_sizes)
        d["group_indices"] = sorted(ctx.group_indices)
    for f, a in ADDR_CTX_ATTR.items():
        v = getattr(ctx, a)
        d[a] = {"any": v.any_addr, "no": v.no_addr, "possible": sorted(v.possible_addr)}
    return d
