#!/usr/bin/env python3
"""Regenerate MANIFEST.json from the table below (kept in one place so that it stays valid)."""
import json
import os

VERIF = os.path.dirname(os.path.dirname(os.path.abspath(__file__)))

CLAIMED = {
    "C06": dict(
        category="translation_validation",
        technique="z3 symbolic execution of each program (group size, own index, fields = solver variables) validates tealer's per-block sets; CrossHair/z3 proves the comparison kernels for all uint64 constants",
        text="For every program of a bounded-exhaustive family, real tealer is run and its per-block group_sizes/group_indices are validated by z3 against all accepting executions (EXACT AVM semantics, soundness) and against the direct-check reading (FREE semantics, exactness); the comparison kernels are confirmed by CrossHair for all uint64 constants. Bounded: program shapes up to the stated size, loops unrolled 2-3 times, call depth 3.",
        note="trusted: z3, CrossHair's int model, the TEAL fragment semantics in vlib/tealsem.py (concrete and symbolic instance replay each other); assumes well-formed transactions; known findings KF-C06-* are listed, not suppressed wholesale (normaliser attribution)",
        design_ref="DESIGN.md section 4 C06",
    ),
}

NOT_YET = {'C01': 'check under construction in this build round (see DESIGN.md section 9); not claimed yet', 'C02': 'check under construction in this build round (see DESIGN.md section 9); not claimed yet', 'C03': 'check under construction in this build round (see DESIGN.md section 9); not claimed yet', 'C04': 'check under construction in this build round (see DESIGN.md section 9); not claimed yet', 'C05': 'check under construction in this build round (see DESIGN.md section 9); not claimed yet', 'C07': 'check under construction in this build round (see DESIGN.md section 9); not claimed yet', 'C08': 'check under construction in this build round (see DESIGN.md section 9); not claimed yet', 'C09': 'check under construction in this build round (see DESIGN.md section 9); not claimed yet', 'C10': 'check under construction in this build round (see DESIGN.md section 9); not claimed yet', 'C11': 'check under construction in this build round (see DESIGN.md section 9); not claimed yet', 'C12': 'check under construction in this build round (see DESIGN.md section 9); not claimed yet', 'C13': 'check under construction in this build round (see DESIGN.md section 9); not claimed yet', 'C14': 'check under construction in this build round (see DESIGN.md section 9); not claimed yet', 'C15': 'check under construction in this build round (see DESIGN.md section 9); not claimed yet', 'C16': 'check under construction in this build round (see DESIGN.md section 9); not claimed yet', 'C17': 'check under construction in this build round (see DESIGN.md section 9); not claimed yet', 'C19': 'check under construction in this build round (see DESIGN.md section 9); not claimed yet', 'C20': 'check under construction in this build round (see DESIGN.md section 9); not claimed yet', 'C18': 'relates DOT/JSON text renderings to internal objects: no run-time input, constant or schedule for a solver to range over; int->str/re/file output are beyond CrossHair (measured); reading files back would be output testing, another technique'}


def main() -> None:
    checks = []
    for pid, c in sorted(CLAIMED.items()):
        checks.append(
            {
                "property_id": pid,
                "quick_cmd": f"./check {pid} --tier quick",
                "thorough_cmd": f"./check {pid} --tier thorough",
                "evidence_file": f"/verif/evidence/{pid}.json",
                "replay_cmd_template": f"./check {pid} --replay {{path}}",
                "engine": c.get("engine", "K+S"),
                "level_claimed": {"category": c["category"], "text": c["text"], "design_ref": c["design_ref"]},
                "level_note": c["note"],
                "technique": c["technique"],
            }
        )
    na = [{"property_id": k, "reason": v} for k, v in sorted(NOT_YET.items())]
    manifest = {
        "version": 1,
        "setup_cmd": "python3 vlib/bootstrap.py",
        "hooks": {
            "guard": "TEALER_VERIF",
            "enable": "no source hooks are needed: checks import tealer from /repo's working tree and observe public objects; the variable is set by ./check for completeness",
            "baseline_off_cmd": "cd /repo && /venv/bin/python -m pytest -ra -q -p no:cacheprovider --timeout=900 --continue-on-collection-errors",
            "source_commits": [],
            "add_only": True,
        },
        "engines": [
            {"name": "K", "path": "vlib/chrunner.py", "serves_properties": sorted(CLAIMED), "kind_free_text": "CrossHair (z3) symbolic execution of tealer's own functions, one process per condition, native replay"},
            {"name": "S", "path": "vlib/symexec.py", "serves_properties": sorted(CLAIMED), "kind_free_text": "z3 symbolic executor for the TEAL fragment; tealer's output rendered as formulas (translation validation)"},
            {"name": "G", "path": "vlib/cfgsem.py", "serves_properties": [], "kind_free_text": "z3 one-step / bounded-reachability queries over the control-flow transition system"},
        ],
        "checks": checks,
        "not_applicable": na,
        "notes": "exit 0 = held on everything explored; 1 = VIOLATION (replay-confirmed, not listed in known_findings.json); 3 = harness error. See DESIGN.md.",
    }
    with open(os.path.join(VERIF, "MANIFEST.json"), "w") as f:
        json.dump(manifest, f, indent=1)
    try:
        import jsonschema

        jsonschema.validate(manifest, json.load(open("/root/.vp/MANIFEST.schema.json")))
        print("MANIFEST.json valid,", len(checks), "checks,", len(na), "not applicable")
    except ImportError:
        print("written (jsonschema not available for validation)")


if __name__ == "__main__":
    main()
