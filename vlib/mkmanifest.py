#!/usr/bin/env python3
"""Regenerate MANIFEST.json from the table below (kept in one place so that it stays valid)."""
import json
import os

VERIF = os.path.dirname(os.path.dirname(os.path.abspath(__file__)))

CLAIMED = {
    "C14": dict(
        category="other",
        technique="CrossHair/z3 bounded symbolic execution: frame conditions of every kernel, lattice laws of every domain, the real worklist solvers under a solver-chosen permutation, detectors on contexts with symbolic content",
        text="Narrow claim. State isolation: for all constants the kernels leave module-level universes / key lists / enum tuples unchanged and return fresh objects. Order independence: union/intersection of every domain are commutative, associative, idempotent, absorbing and monotone (unique fixpoint), and the real GroupIndices solvers give the same sets for every permutation of the initial worklists of a 4-block function. Read-only detectors: each of the nine detectors leaves contexts with symbolic content unchanged. Operation order: for a contract whose three functions share two subroutines, analysed through init_tealer_from_config with a solver-chosen sequence of operations, every path detector reports for an operation the paths it reports when that operation is analysed alone. History: after a solver-chosen history of 0-2 contracts (pool of five that reuse label names and shapes) analysed in the same process, all contexts and detector paths of a target equal those of a fresh interpreter.",
        note="hash-seed, set-iteration order across processes and byte-identical JSON are outside the technique (properties of interpreter runs) and are not claimed",
        design_ref="DESIGN.md section 4 C14", engine="K",
    ),
    "C15": dict(
        category="other",
        technique="CrossHair/z3 bounded symbolic execution of the comparison kernels and of parse_line over constant spellings",
        text="Narrow claim. For all uint64 constants int / pushint / intc / intc_i give identical kernel results for GroupSize, Fee and kind comparisons; named TypeEnum/OnCompletion constants equal their numbers; decimal/hex/octal spellings of 0..255 parse to the same constant.",
        note="textual rewrites (labels, comments, padding, moving subroutines) relate two texts and would be differential testing: outside, stated in DESIGN.md",
        design_ref="DESIGN.md section 4 C15", engine="K",
    ),
    "C16": dict(
        category="other",
        technique="CrossHair/z3 bounded symbolic execution of the real parse_line/_parse_int/first_pass on lines built from symbolic characters; finite dispatch/field/round-trip table enumerated against an independent AVM table",
        text="Integers in decimal/hex/octal of bounded digit count denote the assembler's value; whitespace/comment variations do not change the instruction; hex and quoted byte literals are kept verbatim; unknown opcodes are kept as unsupported; line numbers are the 1-based source lines (symbolic numbers of blank/comment lines). Finite part: every opcode of TEAL v1-v8 (incl. all prefix pairs) parses to an instruction printing that opcode and round-trips; every field name maps to its class; base64/base32 examples.",
        note="base64/base32 decoding and literals beyond the digit bounds are outside the symbolic claim",
        design_ref="DESIGN.md section 4 C16", engine="K",
    ),
    "C17": dict(
        category="other",
        technique="CrossHair/z3 bounded symbolic execution of whole real analyses on one-block functions with symbolic immediates (tier W) and of the kind/index kernels for all constants",
        text="Narrow claim: no internal error for any value of an immediate tealer interprets (comparison constants, gtxn indices, gtxns offsets, intc indices, dig/cover/popn depths, scratch slots); for GroupSize/GroupIndex/Fee constants the whole pipeline result is moreover exactly the implied set/bound for every constant; the transaction-context printer (its two file-writing helpers stubbed) finishes and annotates the entry block with the computed sets for every constant.",
        note="layout-dependent crashes, the CLI, the other printers and files have no symbolic dimension and are outside; their graph-level causes are checked by C04/C05/C12 and every S/G worker reports tealer exceptions",
        design_ref="DESIGN.md section 4 C17", engine="K",
    ),
    "C11": dict(
        category="other",
        technique="CrossHair/z3 bounded symbolic execution of Stack.pop_n_values, construct_stack_ast (symbolic stack effects) and the immediates-dependent stack effects for all 0<=n<=255; finite opcode table vs independent AVM table",
        text="The emulation step is confirmed for an arbitrary tracked stack and pop count (inductive: any sequence), construct_stack_ast is confirmed on a three-instruction block with symbolic stack effects against a reference over value identities, and every opcode's (pops, pushes) equals the AVM signature - symbolically in the immediates where they matter, by complete enumeration of the finite table otherwise.",
        note="known finding KF-C11-frame-bury; frame-pointer aliasing and cross-block operands are outside",
        design_ref="DESIGN.md section 4 C11", engine="K",
    ),
    "C19": dict(
        category="other",
        technique="CrossHair/z3 bounded symbolic execution of _verify_version / _detect_execution_mode / cost properties with the declared version symbolic over 1..8, per opcode and field against an independent AVM table cross-checked with pyteal",
        text="For every opcode, transaction field and global field of TEAL v1-v8: flagged exactly when the declared version is below the introduction version; instruction modes; mode detection and mixture on symbolic mode lists; contract type; default version; per-version opcode costs and block cost sums; whole parse_teal with a solver-chosen instruction placed in live or unreachable code (after return, never-called subroutine, skipped by b): flags, mode and mixture message are those of the whole text.",
        note="`method`, size-dependent costs and field-level modes are outside the claim",
        design_ref="DESIGN.md section 4 C19", engine="K",
    ),
    "C13": dict(
        category="translation_validation",
        technique="z3 symbolic execution of all configured contracts inside one symbolic group (slot of each transaction, group size and all fields are solver variables); real init_tealer_from_config + run_detectors validated in both directions; CrossHair on the relative-index relation",
        text="For every configuration of 1-3 transactions over a pool of contracts (all placements of absolute indices, offsets written on either side, types) the real group pipeline is run; z3 decides whether a group consistent with the configuration is approved by every configured contract while a transaction carries the dangerous value (=> must be reported, model replayed concretely) and the direct-check reading decides when a transaction must be cleared (own contract or a member reading it through the configured index/offset).",
        note="group-size-check is not group-aware in tealer and is outside; derived (transitive) offsets are not used for the cleared direction",
        design_ref="DESIGN.md section 4 C13",
    ),
    "C10": dict(
        category="translation_validation",
        technique="CrossHair/z3 on index classification and key matching for symbolic indices/offsets; z3 validation of gtxn/absolute/relative contexts against all groups (16 slots symbolic)",
        text="K: _get_index/get_index_and_field classify `gtxn i`, `int i; gtxns`, `txn GroupIndex (+|-) int k; gtxns` correctly for all i,k and is_value_matches_key matches exactly the key of the same field and index/offset (incl. negative offsets and the key-name round trip). S: for programs reading up to three group members, every non-default gtxn_context(i), absolute_context(i), relative_context(k) of every block on an accepting path admits the values of the transaction it speaks about, for all groups.",
        note="'empty when i impossible' read against tealer's own listed indices; well-formed transactions in every slot",
        design_ref="DESIGN.md section 4 C10",
    ),
    "C12": dict(
        category="translation_validation",
        technique="z3 symbolic execution restricted to executions whose main-graph block sequence starts with the dispatch path validates the contexts of the real construct_function() result; structure compared per path",
        text="For every root-to-block prefix (length <= 3/4) of the main graph of each family program the real construct_function() is called; its contexts are validated (EXACT soundness of all keys, FREE exactness of GroupSize/GroupIndex) against exactly the executions that start with the path; isomorphism for [B0], error blocks on departures, shared subroutine objects and mirror relation are checked; graph immutability and order independence are compared as by-products.",
        note="known findings KF-C12-early-exit-in-callee and KF-C12-path-through-loop are listed with specific attribution",
        design_ref="DESIGN.md section 4 C12", engine="S+G",
    ),
    "C02": dict(
        category="model_checking",
        technique="one z3 query per reported path (symbolic call stack and activation ids constrained to the reported block sequence) + z3 direct-check exploration for 'excluded at a block'",
        text="Every path returned by the nine detectors on each family program is checked by a z3 query that asks for a run of the control-flow semantics producing exactly that block sequence (start at the entry, call-stack discipline, terminating end, no block twice per activation); unsat = not a genuine path. Per block and detector field a direct-check exploration decides exclusion. Duplicates and renderings are compared on the real objects as a by-product.",
        note="bounded by program family, unrolling 2, call depth 8 for the direct-check runs (deeper = inconclusive, never an alarm)",
        design_ref="DESIGN.md section 4 C02", engine="G+S",
    ),
    "C04": dict(
        category="model_checking",
        technique="z3 one-step induction over a symbolic pc / return address; z3 fixedpoint (Datalog) reachability; relation equality over symbolic block ids",
        text="For every control layout up to the stated size (bounded-exhaustive) and the repo corpus: one inductive step from an arbitrary reachable state with an arbitrary valid return address must stay inside tealer's graph (unsat of the negation covers executions of any length); retained == reachable is decided by z3's fixedpoint engine (complete for the finite graph); successor/predecessor mirroring and bz/bnz order as relation queries.",
        note="data is ignored (every branch outcome possible), which over-approximates real executions; assembler-valid structured programs only",
        design_ref="DESIGN.md section 4 C04", engine="G",
    ),
    "C05": dict(
        category="model_checking",
        technique="z3 fixedpoint reachability per subroutine entry; call-site / return-point / caller tables compared with the control-flow semantics",
        text="For all call matrices over <= 2 subroutines in 5 layouts, slices for 3, structured patterns for up to 6, and all control layouts with calls: subroutine names, membership (call-free reachability decided by z3's fixedpoint engine), exits, called subroutine and return point of every call site, caller/return-point tables of Subroutine and Function, call-graph edges.",
        note="DOT text of the call graph file outside (C18); a bz/bnz-last block not being an exit is the listed finding KF-C06-last-branch-fallthrough",
        design_ref="DESIGN.md section 4 C05", engine="G",
    ),
    "C20": dict(
        category="model_checking",
        technique="z3 fixedpoint reachability (label -> instruction, instruction -> match) under two edge relations; reported matches and covered set must lie between the induced bounds",
        text="For every layout program, every retained label and `*`, and patterns of 1-4 instructions drawn from the program (chains, non-chains, overlapping, absent): reported matches are sound w.r.t. the union of both readings of a callsub and complete w.r.t. call-free reachability; each match lists the chain in order; covered lies between the corresponding path sets.",
        note="pattern texts taken verbatim from the program; occurrences reachable only through a call are counted, not demanded",
        design_ref="DESIGN.md section 4 C20", engine="G",
    ),
    "C01": dict(
        category="translation_validation",
        technique="z3 existence query per accepting path of each program ('approved with the dangerous value'), model replayed, real run_detectors() must report",
        text="For every program of the family and each of the nine path-reporting detectors, z3 decides over all groups (size, index, field values symbolic) whether an approved execution carries the dangerous value; if so the model is replayed on the concrete semantics and the real detector must report at least one path. Bounded by program shapes, unrolling 2, call depth 3.",
        note="trusted: z3, the TEAL fragment semantics; well-formed transactions; programs with run-time comparisons of governed address/fee fields excluded as the property says; universal claim over constants rests on the K lemmas of C06-C09",
        design_ref="DESIGN.md section 4 C01", engine="S",
    ),
    "C03": dict(
        category="translation_validation",
        technique="z3 symbolic execution under the direct-check (FREE) semantics per detector field; unsat danger on all accepting paths => real detector must report nothing",
        text="Per program and detector the direct-check reading is explored with z3 (only same-block comparisons of the governed field with constants interpreted, everything else free, two-field detectors projected per field). If no accepting path admits the dangerous value the real detector must report no path.",
        note="the FREE reading only admits more executions than the AVM, so the obligation never exceeds the property; bounded as C01",
        design_ref="DESIGN.md section 4 C03", engine="S",
    ),
    "C07": dict(
        category="translation_validation",
        technique="CrossHair/z3 on _get_asserted for all uint64 constants x all well-formed (TypeEnum, OnCompletion, ApplicationID) valuations; z3 validation of per-block kind sets against all accepting executions",
        text="K: for every comparison form (field x ==/!= x operand order x txn/gtxn/gtxns forms x numeric/named spelling) CrossHair confirms that each detector-relevant kind of any well-formed valuation stays in the true/false set, for all constants, and that no constant crashes the kernel. S: per program, every accepting execution's kind is in the set of every block it visits.",
        note="known finding KF-C07-appid-oc (Pay/Axfer dropped by OnCompletion/ApplicationID checks) is listed; assumption: application creation calls are NoOp/OptIn",
        design_ref="DESIGN.md section 4 C07",
    ),
    "C08": dict(
        category="translation_validation",
        technique="CrossHair/z3 on the address-set lattice (10 symbolic Booleans) and comparison kernels; z3 validation of per-block address information against all accepting executions; FREE-mode converse",
        text="K: gamma(union)=gamma(a)|gamma(b), gamma(intersection)=gamma(a)&gamma(b) and invariant preservation over all representations; comparison kernels admit every non-zero address that satisfies the comparison and pin the compared side. S: soundness per accepting path and block for RekeyTo/CloseRemainderTo/AssetCloseTo/Sender with symbolic addresses; converse: a field pinned on every accepting direct-check path is not 'any address'.",
        note="attacker address distinct from all named addresses; converse clause read as 'no unnamed address admitted'",
        design_ref="DESIGN.md section 4 C08",
    ),
    "C09": dict(
        category="translation_validation",
        technique="CrossHair/z3 on the Fee kernels for all uint64 constants and fees (soundness + exact bound) and the FeeValue lattice laws; z3 validation of per-block bounds",
        text="K: for all c and all fees f the true/false bound of every comparison form is an upper bound, the bounded side is exact, unknown never arises from a literal; lattice laws of FeeValue. S: on every accepting path Fee <= max_fee of every visited block (EXACT), and under the direct-check reading the bound is never below an admitted fee and is exact for a single direct check.",
        note="'unknown' read as bounded by MAX_TRANSACTION_COST; the unbounded side of a comparison with 2^64-1 is accepted as 'no bound'",
        design_ref="DESIGN.md section 4 C09",
    ),
    "C06": dict(
        category="translation_validation",
        technique="z3 symbolic execution of each program (group size, own index, fields = solver variables) validates tealer's per-block sets; CrossHair/z3 proves the comparison kernels for all uint64 constants",
        text="For every program of a bounded-exhaustive family, real tealer is run and its per-block group_sizes/group_indices are validated by z3 against all accepting executions (EXACT AVM semantics, soundness) and against the direct-check reading (FREE semantics, exactness); the comparison kernels are confirmed by CrossHair for all uint64 constants. Bounded: program shapes up to the stated size, loops unrolled 2-3 times, call depth 3.",
        note="trusted: z3, CrossHair's int model, the TEAL fragment semantics in vlib/tealsem.py (concrete and symbolic instance replay each other); assumes well-formed transactions; known findings KF-C06-* are listed, not suppressed wholesale (normaliser attribution)",
        design_ref="DESIGN.md section 4 C06",
    ),
}

NOT_YET = {'C18': 'relates DOT/JSON text renderings to internal objects: no run-time input, constant or schedule for a solver to range over; int->str/re/file output are beyond CrossHair (measured); reading files back would be output testing, another technique'}


def main() -> None:
    checks = []
    for pid, c in sorted(CLAIMED.items()):
        checks.append(
            {
                "property_id": pid,
                "quick_cmd": f"./check {pid} --tier quick",
                "thorough_cmd": f"./check {pid} --tier thorough",
                "evidence_file": f"/verif/evidence/{pid}.json",
                "replay_cmd_template": f"./check {pid} --replay {{path}}",
                "engine": c.get("engine", "K+S"),
                "level_claimed": {"category": c["category"], "text": c["text"], "design_ref": c["design_ref"]},
                "level_note": c["note"],
                "technique": c["technique"],
            }
        )
    na = [{"property_id": k, "reason": v} for k, v in sorted(NOT_YET.items())]
    manifest = {
        "version": 1,
        "setup_cmd": "python3 vlib/bootstrap.py",
        "hooks": {
            "guard": "TEALER_VERIF",
            "enable": "no source hooks are needed: checks import tealer from /repo's working tree and observe public objects; the variable is set by ./check for completeness",
            "baseline_off_cmd": "cd /repo && /venv/bin/python -m pytest -ra -q -p no:cacheprovider --timeout=900 --continue-on-collection-errors",
            "source_commits": [],
            "add_only": True,
        },
        "engines": [
            {"name": "K", "path": "vlib/chrunner.py", "serves_properties": sorted(CLAIMED), "kind_free_text": "CrossHair (z3) symbolic execution of tealer's own functions, one process per condition, native replay"},
            {"name": "S", "path": "vlib/symexec.py", "serves_properties": sorted(CLAIMED), "kind_free_text": "z3 symbolic executor for the TEAL fragment; tealer's output rendered as formulas (translation validation)"},
            {"name": "G", "path": "vlib/cfgsem.py", "serves_properties": [], "kind_free_text": "z3 one-step / bounded-reachability queries over the control-flow transition system"},
        ],
        "checks": checks,
        "not_applicable": na,
        "notes": "exit 0 = held on everything explored; 1 = VIOLATION (replay-confirmed, not listed in known_findings.json); 3 = harness error. See DESIGN.md.",
    }
    with open(os.path.join(VERIF, "MANIFEST.json"), "w") as f:
        json.dump(manifest, f, indent=1)
    try:
        import jsonschema

        jsonschema.validate(manifest, json.load(open("/root/.vp/MANIFEST.schema.json")))
        print("MANIFEST.json valid,", len(checks), "checks,", len(na), "not applicable")
    except ImportError:
        print("written (jsonschema not available for validation)")


if __name__ == "__main__":
    main()
