"""Independent semantics of the modelled TEAL fragment (engine S).

One definition of the instruction semantics, instantiated over two domains:

* ``ConcreteDom``  - Python ints; used to replay solver models and to validate the encoder;
* ``Z3Dom``        - z3 terms; a depth-first symbolic executor with one incremental solver.

Two modes:

* EXACT - AVM semantics of the fragment (overflow/underflow failures, gtxn index < GroupSize, ...).
* FREE  - "direct-check reading": only comparisons of a governed field (read by the very instruction
          that feeds the comparison, inside the same basic block) against a constant are interpreted,
          every other value is a fresh run-time value, no implicit failure conditions.

Nothing in this module imports tealer.  The tokenizer below is deliberately separate from tealer's
parser so that a parsing defect is not shared by the oracle.
"""
from __future__ import annotations

import re
from dataclasses import dataclass, field
from typing import Any, Callable, Dict, List, Optional, Sequence, Tuple

MAX_UINT64 = 2**64 - 1
MAX_GROUP = 16

# ---------------------------------------------------------------------------------------------
# tokenizer
# ---------------------------------------------------------------------------------------------

TYPE_ENUM_NAMES = {"unknown": 0, "pay": 1, "keyreg": 2, "acfg": 3, "axfer": 4, "afrz": 5, "appl": 6}
ONCOMPLETE_NAMES = {
    "NoOp": 0,
    "OptIn": 1,
    "CloseOut": 2,
    "ClearState": 3,
    "UpdateApplication": 4,
    "DeleteApplication": 5,
}
NAMED_INT = dict(TYPE_ENUM_NAMES)
NAMED_INT.update(ONCOMPLETE_NAMES)


@dataclass
class Ins:
    idx: int  # position in Prog.ins
    line: int  # 1-based source line
    op: str  # opcode; "label:" for labels, "#pragma" for pragma
    args: List[str]
    text: str

    def __repr__(self) -> str:
        return f"{self.line}:{self.op} {' '.join(self.args)}".strip()


@dataclass
class Prog:
    src: str
    ins: List[Ins]
    labels: Dict[str, int]  # label name -> index of the label instruction
    version: int

    def target(self, name: str) -> int:
        return self.labels[name]


_TOKEN = re.compile(r'"(?:[^"\\]|\\.)*"|\S+')


def split_line(line: str) -> List[str]:
    """Split one source line into tokens, dropping the trailing // comment (quotes respected)."""
    out: List[str] = []
    for m in _TOKEN.finditer(line):
        tok = m.group(0)
        if tok.startswith("//"):
            break
        out.append(tok)
    return out


def tokenize(src: str) -> Prog:
    ins: List[Ins] = []
    labels: Dict[str, int] = {}
    version = 1
    for lineno, raw in enumerate(src.splitlines(), start=1):
        toks = split_line(raw)
        if not toks:
            continue
        if toks[0] == "#pragma":
            if len(toks) >= 3 and toks[1] == "version" and not ins:
                version = int(toks[2])
            ins.append(Ins(len(ins), lineno, "#pragma", toks[1:], raw.strip()))
            continue
        if toks[0].endswith(":") and len(toks) == 1:
            name = toks[0][:-1]
            labels[name] = len(ins)
            ins.append(Ins(len(ins), lineno, "label:", [name], raw.strip()))
            continue
        ins.append(Ins(len(ins), lineno, toks[0], toks[1:], raw.strip()))
    return Prog(src, ins, labels, version)


def parse_int_literal(tok: str) -> Optional[int]:
    """TEAL integer literal: decimal, 0x hex, leading-0 octal (Go strconv.ParseUint base 0)."""
    try:
        if tok.startswith(("0x", "0X")):
            return int(tok[2:], 16)
        if tok.startswith(("0o", "0O")):
            return int(tok[2:], 8)
        if tok.startswith(("0b", "0B")):
            return int(tok[2:], 2)
        if len(tok) > 1 and tok.startswith("0"):
            return int(tok[1:], 8)
        return int(tok, 10)
    except ValueError:
        return None


def int_arg(tok: str) -> Optional[int]:
    v = parse_int_literal(tok)
    if v is not None:
        return v
    return NAMED_INT.get(tok)


# ---------------------------------------------------------------------------------------------
# control structure (independent of tealer): leaders and stepping
# ---------------------------------------------------------------------------------------------

BRANCH_OPS = {"b", "bz", "bnz", "switch", "match"}
STOP_OPS = {"return", "err"}
BLOCK_END_OPS = BRANCH_OPS | STOP_OPS | {"callsub", "retsub"}


def leaders(p: Prog) -> List[bool]:
    """leader[i] is True iff instruction i starts a basic block (by the classic definition)."""
    n = len(p.ins)
    lead = [False] * n
    if n:
        lead[0] = True
    for i, ins in enumerate(p.ins):
        if ins.op == "label:":
            lead[i] = True
        if ins.op in BLOCK_END_OPS and i + 1 < n:
            lead[i + 1] = True
    return lead


def block_start_of(p: Prog) -> List[int]:
    """block_start_of[i] = index of the leader of the block that contains instruction i."""
    lead = leaders(p)
    out = []
    cur = 0
    for i in range(len(p.ins)):
        if lead[i]:
            cur = i
        out.append(cur)
    return out


# ---------------------------------------------------------------------------------------------
# fields
# ---------------------------------------------------------------------------------------------

INT_FIELDS = ("TypeEnum", "OnCompletion", "ApplicationID", "Fee")
ADDR_FIELDS = ("RekeyTo", "CloseRemainderTo", "AssetCloseTo", "Sender")
GOVERNED = INT_FIELDS + ADDR_FIELDS
# other fields known to hold addresses (modelled as opaque but consistent per slot)
OTHER_ADDR_FIELDS = ("Receiver", "AssetReceiver", "AssetSender", "FreezeAssetAccount", "ConfigAssetManager")

ADDR_ZERO = 0
ADDR_CREATOR = 1
ADDR_ATT = 2  # an address the program never names
ADDR_FIRST_LITERAL = 3
ZERO_ADDRESS_TXT = "AAAAAAAAAAAAAAAAAAAAAAAAAAAAAAAAAAAAAAAAAAAAAAAAAAAAY5HFKQ"


def address_table(p: Prog) -> Dict[str, int]:
    tab: Dict[str, int] = {}
    for ins in p.ins:
        if ins.op == "addr" and ins.args:
            a = ins.args[0]
            if a == ZERO_ADDRESS_TXT:
                tab[a] = ADDR_ZERO
            elif a not in tab:
                tab[a] = ADDR_FIRST_LITERAL + len([v for v in tab.values() if v >= ADDR_FIRST_LITERAL])
    return tab


# ---------------------------------------------------------------------------------------------
# values
# ---------------------------------------------------------------------------------------------


@dataclass(frozen=True)
class V:
    """A stack value: a term of the domain plus (FREE mode / classification) provenance.

    prov: None                              - nothing known syntactically
          ("c", int)                        - pushed by a constant instruction in this block
          ("f", field, kind, n)             - pushed by a field read in this block; kind in
                                              {"self","abs","rel","unk"}, n = index / offset
          ("gi",)                           - txn GroupIndex read in this block
          ("gio", k)                        - txn GroupIndex +/- constant
          ("gs",)                           - global GroupSize read in this block
    """

    t: Any
    prov: Optional[Tuple] = None


class Fail(Exception):
    """The execution fails (the program rejects)."""


class Unsupported(Exception):
    """An opcode outside the modelled fragment and outside the generic stack-effect table."""


# stack effects (pops, pushes) for opcodes handled generically: result values are free.
GENERIC_EFFECT: Dict[str, Tuple[int, int]] = {
    "sha256": (1, 1), "keccak256": (1, 1), "sha512_256": (1, 1), "sha3_256": (1, 1),
    "ed25519verify": (3, 1), "ed25519verify_bare": (3, 1),
    "/": (2, 1), "*": (2, 1), "%": (2, 1), "|": (2, 1), "&": (2, 1), "^": (2, 1), "~": (1, 1),
    "len": (1, 1), "itob": (1, 1), "btoi": (1, 1), "concat": (2, 1), "substring3": (3, 1),
    "mulw": (2, 2), "addw": (2, 2), "divmodw": (4, 4), "divw": (3, 1), "expw": (2, 2), "exp": (2, 1),
    "shl": (2, 1), "shr": (2, 1), "sqrt": (1, 1), "bitlen": (1, 1),
    "balance": (1, 1), "min_balance": (1, 1), "app_opted_in": (2, 1), "app_local_get": (2, 1),
    "app_local_get_ex": (3, 2), "app_global_get": (1, 1), "app_global_get_ex": (2, 2),
    "app_local_put": (3, 0), "app_global_put": (2, 0), "app_local_del": (2, 0), "app_global_del": (1, 0),
    "getbit": (2, 1), "setbit": (3, 1), "getbyte": (2, 1), "setbyte": (3, 1),
    "extract3": (3, 1), "extract_uint16": (2, 1), "extract_uint32": (2, 1), "extract_uint64": (2, 1),
    "log": (1, 0), "bzero": (1, 1), "b+": (2, 1), "b-": (2, 1), "b*": (2, 1), "b/": (2, 1), "b%": (2, 1),
    "b<": (2, 1), "b>": (2, 1), "b<=": (2, 1), "b>=": (2, 1), "b==": (2, 1), "b!=": (2, 1),
    "b|": (2, 1), "b&": (2, 1), "b^": (2, 1), "b~": (1, 1), "bsqrt": (1, 1),
    "itxn_begin": (0, 0), "itxn_submit": (0, 0), "itxn_next": (0, 0), "itxn_field": (1, 0),
    "loads": (1, 1), "stores": (2, 0), "gloads": (1, 1), "gloadss": (2, 1), "gaids": (1, 1),
    "args": (1, 1), "txnas": (1, 1), "gtxnas": (1, 1), "gtxnsas": (2, 1), "itxnas": (1, 1),
    "box_create": (2, 1), "box_extract": (3, 1), "box_replace": (3, 0), "box_del": (1, 1),
    "box_len": (1, 2), "box_get": (1, 2), "box_put": (2, 0),
    "replace3": (3, 1), "base64_decode": (1, 1), "json_ref": (2, 1),
    "asset_holding_get": (2, 2), "asset_params_get": (1, 2), "app_params_get": (1, 2),
    "acct_params_get": (1, 2), "block": (1, 1), "vrf_verify": (3, 2),
    "ecdsa_verify": (5, 1), "ecdsa_pk_decompress": (1, 2), "ecdsa_pk_recover": (4, 2),
    # immediates only
    "arg": (0, 1), "arg_0": (0, 1), "arg_1": (0, 1), "arg_2": (0, 1), "arg_3": (0, 1),
    "txna": (0, 1), "gtxna": (0, 1), "gtxnsa": (1, 1), "itxn": (0, 1), "itxna": (0, 1),
    "gitxn": (0, 1), "gitxna": (0, 1), "gload": (0, 1), "gaid": (0, 1),
    "byte": (0, 1), "pushbytes": (0, 1), "method": (0, 1),
    "bytec": (0, 1), "bytec_0": (0, 1), "bytec_1": (0, 1), "bytec_2": (0, 1), "bytec_3": (0, 1),
    "bytecblock": (0, 0), "substring": (1, 1), "extract": (1, 1), "replace2": (2, 1),
}

SHUFFLE_OPS = {"dup", "dup2", "swap", "dig", "cover", "uncover", "select", "load", "store", "dupn", "bury"}
CMP_OPS = {"==", "!=", "<", "<=", ">", ">="}


# ---------------------------------------------------------------------------------------------
# domains
# ---------------------------------------------------------------------------------------------


class ConcreteDom:
    """Python-int instance of the semantics.  ``model`` supplies every input."""

    symbolic = False

    def __init__(self, model: Dict[str, Any], gi: Optional[int] = None, tag: str = ""):
        self.model = model
        self.gs = int(model["gs"])
        self.gi = int(model["gi"]) if gi is None else int(gi)
        self.tag = tag

    def const(self, n: int) -> int:
        return n

    def field(self, name: str, slot: int) -> int:
        return int(self.model.get("fields", {}).get(name, {}).get(str(int(slot)), 0))

    def fresh(self, key: str, lo: int = 0, hi: int = MAX_UINT64) -> int:
        return int(self.model.get("fresh", {}).get(self.tag + key, 0))

    def glob(self, name: str) -> int:
        return int(self.model.get("globals", {}).get(name, 0))

    @staticmethod
    def ite(c: bool, a: int, b: int) -> int:
        return a if c else b

    @staticmethod
    def and_(*xs: bool) -> bool:
        return all(xs)

    @staticmethod
    def or_(*xs: bool) -> bool:
        return any(xs)

    @staticmethod
    def not_(x: bool) -> bool:
        return not x

    @staticmethod
    def eq(a: int, b: int) -> bool:
        return a == b

    def decide(self, cond: bool) -> List[bool]:
        return [bool(cond)]

    def assume(self, cond: bool) -> bool:
        return bool(cond)


# ---------------------------------------------------------------------------------------------
# the executor
# ---------------------------------------------------------------------------------------------


TRAILING_DEPARTURES = ("bz", "bnz", "switch", "match", "callsub")


@dataclass
class PathResult:
    accepted: bool
    trace: List[Tuple[int, int, Tuple[int, ...]]]  # (leader pc, activation id, entry pcs of the active subroutines)
    cut: Optional[str] = None  # None, "loop", "depth", "fuel"
    cond: Any = None  # symbolic: list of z3 constraints of the path
    abs_reads: List[int] = field(default_factory=list)  # pcs of reads by absolute index on the path
    fail_reason: str = ""
    fell_off: bool = False  # the execution ended behind the last instruction of the text (no return / err)


@dataclass
class _State:
    pc: int
    stack: Tuple[V, ...]
    scratch: Dict[int, V]
    calls: Tuple[Tuple[int, int], ...]  # (return pc, caller activation id)
    act: int
    next_act: int
    visits: Dict[Tuple[int, int], int]
    intc: Optional[Tuple[Any, ...]]
    trace: Tuple[Tuple[int, int, Tuple[int, ...]], ...]
    entries: Tuple[int, ...]
    counts: Dict[int, int]  # executions of each pc on this path (names of fresh values)
    steps: int
    abs_reads: Tuple[int, ...]
    padded: bool = False  # FREE: a value below the tracked stack was used (the stack height is no longer known)


class Executor:
    """Runs a program over a domain.  ``on_path`` is called for every terminated path."""

    def __init__(
        self,
        prog: Prog,
        dom: Any,
        mode: str = "EXACT",
        governed: Optional[Sequence[str]] = None,
        unroll: int = 2,
        max_depth: int = 3,
        fuel: int = 400,
        retsub_any: bool = False,
        prefix: Optional[List[int]] = None,
        max_paths: int = 4000,
        max_seconds: float = 30.0,
        prefix_early_exit_ok: bool = False,
    ):
        self.prefix_early_exit_ok = prefix_early_exit_ok
        assert mode in ("EXACT", "FREE")
        self.max_paths = max_paths
        self.max_seconds = max_seconds
        self.budget_exhausted = False
        self._t0 = 0.0
        self.p = prog
        self.dom = dom
        self.mode = mode
        self.governed = set(governed) if governed is not None else set(GOVERNED) | {"GroupSize", "GroupIndex"}
        self.unroll = unroll
        self.max_depth = max_depth
        self.fuel = fuel
        self.retsub_any = retsub_any
        self.prefix = prefix  # required leader-pc prefix of the block trace (dispatch path), or None
        self.lead = leaders(prog)
        # the documented condition under which the tool evaluates intc/intc_N: a single intcblock, in the entry block
        blocks_ic = [i.idx for i in prog.ins if i.op == "intcblock"]
        first_leader_after0 = next((k for k in range(1, len(prog.ins)) if self.lead[k]), len(prog.ins))
        self.intc_resolvable = len(blocks_ic) == 1 and blocks_ic[0] < first_leader_after0
        self.addr_tab = address_table(prog)
        self.n_addr = ADDR_FIRST_LITERAL + len([v for v in self.addr_tab.values() if v >= ADDR_FIRST_LITERAL])
        self.results: List[PathResult] = []
        self.on_path: Optional[Callable[[PathResult, "_State"], None]] = None
        self.runtime_cmp_governed = False  # a governed address/fee field compared with a non-constant
        self.unsupported: Optional[str] = None
        # return points per subroutine label (for retsub_any)
        self.ret_points: Dict[int, List[int]] = {}
        for ins in prog.ins:
            if ins.op == "callsub" and ins.args and ins.args[0] in prog.labels:
                self.ret_points.setdefault(prog.labels[ins.args[0]], []).append(ins.idx + 1)

    # -- helpers --------------------------------------------------------------------------

    def _fresh(self, st: _State, what: str, lo: int = 0, hi: int = MAX_UINT64) -> Any:
        key = f"{what}@{st.pc}#{st.counts.get(st.pc, 0)}"
        return self.dom.fresh(key, lo, hi)

    def _ne0(self, t: Any) -> Any:
        return self.dom.not_(self.dom.eq(t, self.dom.const(0)))

    def _b2i(self, c: Any) -> Any:
        return self.dom.ite(c, self.dom.const(1), self.dom.const(0))

    def _field_read(self, st: _State, fname: str, slot_t: Any, kind: str, n: int) -> V:
        d = self.dom
        prov = ("f", fname, kind, n)
        if fname == "GroupIndex":
            if kind == "self":
                return V(d.gi, ("gi",))
            if kind == "abs":
                return V(slot_t, ("c", n))
            return V(slot_t, None)
        if self.mode == "FREE":
            if kind == "self" and fname in self.governed:
                return V(d.field(fname, slot_t), prov)
            if (kind, n, fname) in self.governed:
                # a governed read of another group member (C13): absolute slot n / offset n from this transaction
                return V(d.field(fname, d.const(n) if kind == "abs" else d.gi + n), prov)
            return V(self._fresh(st, "rd_" + fname), None)
        if fname in GOVERNED or fname in OTHER_ADDR_FIELDS:
            return V(d.field(fname, slot_t), prov)
        return V(d.field("o_" + fname, slot_t), prov)

    # -- main loop ------------------------------------------------------------------------

    def run(self) -> List[PathResult]:
        import time as _time

        self._t0 = _time.time()
        self._time = _time.time
        st = _State(0, (), {}, (), 0, 1, {}, None, (), (), {}, 0, ())
        self._go(st)
        return self.results

    def _finish(self, st: _State, accepted: bool, cut: Optional[str] = None, why: str = "") -> None:
        if self.prefix is not None and accepted and len([e for e in st.trace if not e[2]]) < len(self.prefix):
            # the execution ends before the dispatch path is completed: it does not start with the path
            # (relaxed reading, used only to attribute KF-C12-early-exit-in-callee: ending inside a call is tolerated)
            accepted = bool(self.prefix_early_exit_ok and st.entries)
        res = PathResult(accepted, list(st.trace), cut, None, list(st.abs_reads), why, cut is None and st.pc >= len(self.p.ins))
        if self.on_path is not None:
            self.on_path(res, st)
        self.results.append(res)

    def _branch(self, st: _State, cond: Any, then: Callable[[], None], els: Callable[[], None]) -> None:
        """cond is a domain boolean; explore both feasible outcomes."""
        d = self.dom
        if not d.symbolic:
            (then if cond else els)()
            return
        for val, k in ((True, then), (False, els)):
            d.push()
            d.add(cond if val else d.not_(cond))
            if d.feasible():
                k()
            d.pop()

    def _require(self, st: _State, cond: Any, k: Callable[[], None], why: str) -> None:
        """The execution fails unless cond holds."""
        self._branch(st, cond, k, lambda: self._finish(st, False, why=why))

    def _go(self, st: _State) -> None:  # pylint: disable=too-many-branches,too-many-statements
        p = self.p
        while True:
            if st.pc >= len(p.ins):
                # fell off the end: exactly one value, non-zero
                if self.mode == "EXACT" and len(st.stack) != 1:
                    self._finish(st, False, why="stack size at end")
                    return
                if self.mode == "FREE" and not st.padded and len(st.stack) != 1 and p.ins and p.ins[-1].op in TRAILING_DEPARTURES:
                    # the program text ends in a conditional branch / switch / match / callsub and this execution falls
                    # off the end behind it with a stack whose height is known and is not 1: the AVM rejects it, and no
                    # reading makes it a successful execution (tealer has no leaf block for it either)
                    self._finish(st, False, why="stack size at end (behind a trailing branch)")
                    return
                if not st.stack:
                    # EXACT: the AVM requires exactly one value; FREE: stack shape is not a direct check
                    self._finish(st, self.mode == "FREE", why="empty stack at end")
                    return
                top = st.stack[-1]
                self._branch(st, self._ne0(top.t), lambda: self._finish(st, True), lambda: self._finish(st, False, why="zero at end"))
                return
            if st.steps > self.fuel:
                self._finish(st, False, cut="fuel")
                return
            if len(self.results) >= self.max_paths or (st.steps % 16 == 0 and self._time() - self._t0 > self.max_seconds):
                self.budget_exhausted = True
            if self.budget_exhausted:
                if len(self.results) < self.max_paths + 50:
                    self._finish(st, False, cut="budget")
                return
            ins = p.ins[st.pc]
            if self.lead[st.pc]:
                key = (st.act, st.pc)
                n = st.visits.get(key, 0)
                if n > self.unroll:
                    self._finish(st, False, cut="loop")
                    return
                visits = dict(st.visits)
                visits[key] = n + 1
                # syntactic provenance is block-local (in both modes)
                stack = tuple(V(v.t, None) for v in st.stack)
                st = _replace(st, visits=visits, trace=st.trace + ((st.pc, st.act, st.entries),), stack=stack)
                if self.prefix is not None:
                    # the dispatch path is a path of the main graph: blocks of subroutine activations are skipped
                    tr = [e[0] for e in st.trace if not e[2]]
                    m = min(len(tr), len(self.prefix))
                    if tr[:m] != self.prefix[:m]:
                        self._finish(st, False, why="off dispatch path")
                        return
            try:
                nxt = self._step(st, ins)
            except Fail as e:
                self._finish(st, False, why=str(e))
                return
            if nxt is None:
                return  # _step continued the exploration itself
            st = nxt

    # -- one instruction ------------------------------------------------------------------

    def _step(self, st: _State, ins: Ins) -> Optional[_State]:  # noqa: C901 pylint: disable=too-many-branches,too-many-statements,too-many-return-statements,too-many-locals
        d = self.dom
        op = ins.op
        a = ins.args
        stack = st.stack
        counts = dict(st.counts)
        counts[st.pc] = counts.get(st.pc, 0) + 1
        base = _replace(st, counts=counts, steps=st.steps + 1)
        exact = self.mode == "EXACT"
        self._cur = st
        self._shn = 0

        did_pad = False

        def cont(new_stack: Tuple[V, ...], pc: Optional[int] = None, **kw: Any) -> _State:
            if did_pad:
                kw.setdefault("padded", True)
            return _replace(base, stack=new_stack, pc=(st.pc + 1 if pc is None else pc), **kw)

        def need(n: int) -> None:
            nonlocal stack, did_pad
            if len(stack) < n:
                if exact:
                    raise Fail("stack underflow")
                did_pad = True
                pad = tuple(V(self._fresh(st, f"below{j}"), None) for j in range(n - len(stack)))
                stack = pad + stack

        if op in ("label:", "#pragma"):
            return cont(stack)
        if op in ("int", "pushint"):
            v = int_arg(a[0])
            if v is None:
                raise Unsupported(f"int {a[0]}")
            return cont(stack + (self._constv(st, v),))
        if op == "intcblock":
            vals = tuple(parse_int_literal(x) for x in a)
            return cont(stack, intc=vals)
        if op in ("intc", "intc_0", "intc_1", "intc_2", "intc_3"):
            i = int(a[0]) if op == "intc" else int(op[-1])
            if not exact and not self.intc_resolvable:
                # direct-check reading: a constant the tool cannot evaluate is a free run-time value
                return cont(stack + (V(self._fresh(st, "intc"), None),))
            if st.intc is None or i >= len(st.intc):
                if not exact:
                    return cont(stack + (V(self._fresh(st, "intc"), None),))
                raise Fail("intc out of range")
            v = st.intc[i]
            return cont(stack + (self._constv(st, v),))
        if op == "addr":
            code = self.addr_tab[a[0]]
            return cont(stack + (self._constv(st, code),))
        if op == "global":
            g = a[0]
            if g == "GroupSize":
                return cont(stack + (V(d.gs, ("gs",)),))
            if g == "ZeroAddress":
                return cont(stack + (self._constv(st, ADDR_ZERO),))
            if g == "CreatorAddress":
                return cont(stack + (self._constv(st, ADDR_CREATOR),))
            if exact:
                return cont(stack + (V(d.glob(g), None),))
            return cont(stack + (V(self._fresh(st, "g_" + g), None),))
        if op == "txn":
            return cont(stack + (self._field_read(st, a[0], d.gi, "self", 0),))
        if op == "gtxn":
            i = int_arg(a[0])
            assert i is not None

            def k_gtxn() -> None:
                v = self._field_read(st, a[1], d.const(i), "abs", i)
                self._go(cont(stack + (v,), abs_reads=st.abs_reads + (st.pc,)))

            if exact:
                self._require(st, d.const(i) < d.gs, k_gtxn, "gtxn index >= GroupSize")
                return None
            return cont(stack + (self._field_read(st, a[1], d.const(i), "abs", i),), abs_reads=st.abs_reads + (st.pc,))
        if op == "gtxns":
            need(1)
            idx = stack[-1]
            rest = stack[:-1]
            kind, n = "unk", 0
            if idx.prov and idx.prov[0] == "c":
                kind, n = "abs", idx.prov[1]
            elif idx.prov and idx.prov[0] == "gi":
                kind, n = "self", 0
            elif idx.prov and idx.prov[0] == "gio":
                kind, n = "rel", idx.prov[1]
            reads = st.abs_reads + ((st.pc,) if kind == "abs" else ())

            def k_gtxns() -> None:
                v = self._field_read(st, a[0], idx.t, kind, n)
                self._go(cont(rest + (v,), abs_reads=reads))

            if exact:
                self._require(st, idx.t < d.gs, k_gtxns, "gtxns index >= GroupSize")
                return None
            if kind in ("self", "abs", "rel"):
                return cont(rest + (self._field_read(st, a[0], d.gi, kind, n),), abs_reads=reads)
            return cont(rest + (V(self._fresh(st, "rd_" + a[0]), None),), abs_reads=reads)
        if op in CMP_OPS:
            need(2)
            x, y = stack[-2], stack[-1]
            rest = stack[:-2]
            self._note_runtime_cmp(x, y)
            if not exact and not self._direct(x, y):
                return cont(rest + (V(self._fresh(st, "cmp", 0, 1), None),))
            if not exact:
                # the constant side is read by its literal value
                x = V(d.const(x.prov[1]), x.prov) if x.prov[0] == "c" else x
                y = V(d.const(y.prov[1]), y.prov) if y.prov[0] == "c" else y
            c = {
                "==": lambda: d.eq(x.t, y.t),
                "!=": lambda: d.not_(d.eq(x.t, y.t)),
                "<": lambda: x.t < y.t,
                "<=": lambda: x.t <= y.t,
                ">": lambda: x.t > y.t,
                ">=": lambda: x.t >= y.t,
            }[op]()
            return cont(rest + (V(self._b2i(c), None),))
        if op == "&&":
            need(2)
            x, y = stack[-2], stack[-1]
            return cont(stack[:-2] + (V(self._b2i(d.and_(self._ne0(x.t), self._ne0(y.t))), None),))
        if op == "||":
            need(2)
            x, y = stack[-2], stack[-1]
            return cont(stack[:-2] + (V(self._b2i(d.or_(self._ne0(x.t), self._ne0(y.t))), None),))
        if op == "!":
            need(1)
            x = stack[-1]
            return cont(stack[:-1] + (V(self._b2i(d.eq(x.t, d.const(0))), None),))
        if op in ("+", "-"):
            need(2)
            x, y = stack[-2], stack[-1]
            rest = stack[:-2]
            prov = None
            if x.prov and y.prov:
                if x.prov[0] == "gi" and y.prov[0] == "c":
                    prov = ("gio", y.prov[1] if op == "+" else -y.prov[1])
                elif op == "+" and y.prov[0] == "gi" and x.prov[0] == "c":
                    prov = ("gio", x.prov[1])
            if not exact:
                return cont(rest + (V(self._fresh(st, "arith"), prov),))
            if op == "+":
                r = x.t + y.t
                ok = r <= d.const(MAX_UINT64)
            else:
                r = x.t - y.t
                ok = y.t <= x.t

            def k_ar() -> None:
                self._go(cont(rest + (V(r, prov),)))

            self._require(st, ok, k_ar, "arith overflow/underflow")
            return None
        if op == "pop":
            need(1)
            return cont(stack[:-1])
        if op == "popn":
            n = int(a[0])
            need(n)
            return cont(stack[: len(stack) - n])
        if op == "dup":
            need(1)
            x = self._shuf(stack[-1])
            return cont(stack[:-1] + (x, x))
        if op == "dup2":
            need(2)
            x, y = self._shuf(stack[-2]), self._shuf(stack[-1])
            return cont(stack[:-2] + (x, y, x, y))
        if op == "dupn":
            n = int(a[0])
            need(1)
            x = self._shuf(stack[-1])
            return cont(stack[:-1] + (x,) * (n + 1))
        if op == "swap":
            need(2)
            return cont(stack[:-2] + (self._shuf(stack[-1]), self._shuf(stack[-2])))
        if op == "dig":
            n = int(a[0])
            need(n + 1)
            return cont(tuple(self._shuf(v) if i >= len(stack) - n - 1 else v for i, v in enumerate(stack)) + (self._shuf(stack[-1 - n]),))
        if op == "bury":
            n = int(a[0])
            if n == 0:
                raise Fail("bury 0")
            need(n + 1) if n >= 1 else None
            top = self._shuf(stack[-1])
            rest_l = list(stack[:-1])
            if n > len(rest_l):
                raise Fail("bury depth")
            rest_l[len(rest_l) - n] = top
            return cont(tuple(self._shuf(v) for v in rest_l))
        if op == "cover":
            n = int(a[0])
            need(n + 1)
            top = stack[-1]
            rest_l = list(stack[:-1])
            pos = len(rest_l) - n
            new = rest_l[:pos] + [top] + rest_l[pos:]
            return cont(tuple(new[:pos]) + tuple(self._shuf(v) for v in new[pos:]))
        if op == "uncover":
            n = int(a[0])
            need(n + 1)
            pos = len(stack) - 1 - n
            l = list(stack)
            x = l.pop(pos)
            l.append(x)
            return cont(tuple(l[:pos]) + tuple(self._shuf(v) for v in l[pos:]))
        if op == "select":
            need(3)
            A, B, C = stack[-3], stack[-2], stack[-1]
            if not exact:
                return cont(stack[:-3] + (V(self._fresh(st, "select"), None),))
            return cont(stack[:-3] + (V(d.ite(self._ne0(C.t), B.t, A.t), None),))
        if op == "load":
            i = int(a[0])
            v = st.scratch.get(i)
            if not exact:
                return cont(stack + (V(self._fresh(st, "load"), None),))
            return cont(stack + (V(v.t if v is not None else d.const(0), None),))
        if op == "store":
            need(1)
            sc = dict(st.scratch)
            sc[int(a[0])] = V(stack[-1].t, None)
            return cont(stack[:-1], scratch=sc)
        if op == "assert":
            need(1)
            x = stack[-1]
            self._require(st, self._ne0(x.t), lambda: self._go(cont(stack[:-1])), "assert")
            return None
        if op == "err":
            self._finish(base, False, why="err")
            return None
        if op == "return":
            need(1)
            x = stack[-1]
            if not exact and x.prov and x.prov[0] == "c":
                self._finish(base, x.prov[1] != 0, why="return 0")
                return None
            self._branch(st, self._ne0(x.t), lambda: self._finish(base, True), lambda: self._finish(base, False, why="return 0"))
            return None
        if op == "b":
            return cont(stack, pc=self.p.target(a[0]))
        if op in ("bz", "bnz"):
            need(1)
            x = stack[-1]
            rest = stack[:-1]
            tgt = self.p.target(a[0])
            jump = d.eq(x.t, d.const(0)) if op == "bz" else self._ne0(x.t)
            self._branch(st, jump, lambda: self._go(cont(rest, pc=tgt)), lambda: self._go(cont(rest)))
            return None
        if op == "switch":
            need(1)
            x = stack[-1]
            rest = stack[:-1]
            for i, lab in enumerate(a):
                tgt = self.p.target(lab)
                if d.symbolic:
                    d.push()
                    d.add(d.eq(x.t, d.const(i)))
                    if d.feasible():
                        self._go(cont(rest, pc=tgt))
                    d.pop()
                elif x.t == i:
                    self._go(cont(rest, pc=tgt))
                    return None
            if d.symbolic:
                d.push()
                d.add(x.t >= d.const(len(a)))
                if d.feasible():
                    self._go(cont(rest))
                d.pop()
            else:
                self._go(cont(rest))
            return None
        if op == "match":
            n = len(a)
            need(n + 1)
            x = stack[-1]
            cands = stack[-1 - n : -1]
            rest = stack[: -1 - n]
            if not exact:
                # free choice of the target
                for i, lab in enumerate(a):
                    self._go(cont(rest, pc=self.p.target(lab)))
                self._go(cont(rest))
                return None
            prev_ne: List[Any] = []
            for i, lab in enumerate(a):
                c = d.and_(*(prev_ne + [d.eq(cands[i].t, x.t)])) if prev_ne else d.eq(cands[i].t, x.t)
                if d.symbolic:
                    d.push()
                    d.add(c)
                    if d.feasible():
                        self._go(cont(rest, pc=self.p.target(lab)))
                    d.pop()
                elif c:
                    self._go(cont(rest, pc=self.p.target(lab)))
                    return None
                prev_ne.append(d.not_(d.eq(cands[i].t, x.t)))
            if d.symbolic:
                d.push()
                for c in prev_ne:
                    d.add(c)
                if d.feasible():
                    self._go(cont(rest))
                d.pop()
            else:
                self._go(cont(rest))
            return None
        if op == "callsub":
            if len(st.calls) >= self.max_depth:
                self._finish(base, False, cut="depth")
                return None
            tgt = self.p.target(a[0])
            return cont(stack, pc=tgt, calls=st.calls + ((st.pc + 1, st.act),), act=st.next_act, next_act=st.next_act + 1, entries=st.entries + (tgt,))
        if op == "retsub":
            if not st.calls:
                raise Fail("retsub with empty call stack")
            ret, caller_act = st.calls[-1]
            if self.retsub_any:
                # call-site-insensitive reading: return to any return point of the current subroutine
                entry = self._entry_of_activation(st)
                for rp in self.ret_points.get(entry, [ret]):
                    self._go(cont(stack, pc=rp, calls=st.calls[:-1], act=caller_act, entries=st.entries[:-1]))
                return None
            return cont(stack, pc=ret, calls=st.calls[:-1], act=caller_act, entries=st.entries[:-1])
        if op in GENERIC_EFFECT:
            pops, pushes = GENERIC_EFFECT[op]
            need(pops)
            rest = stack[: len(stack) - pops]
            new = tuple(V(self._fresh(st, f"{op}{j}"), None) for j in range(pushes))
            return cont(rest + new)
        raise Unsupported(op)

    # -- small helpers --------------------------------------------------------------------

    def _entry_of_activation(self, st: _State) -> int:
        # the first trace entry of the current activation is the subroutine's entry leader
        return st.entries[-1] if st.entries else -1

    def _constv(self, st: _State, v: int) -> V:
        if self.mode == "FREE":
            return V(self._fresh(st, "k"), ("c", v))
        return V(self.dom.const(v), ("c", v))

    def _shuf(self, v: V) -> V:
        """Values that went through a stack-shuffling instruction lose their syntactic provenance;
        in the direct-check reading (FREE) they are free run-time values."""
        if self.mode == "FREE":
            self._shn += 1
            return V(self._fresh(self._cur, f"sh{self._shn}"), None)
        return V(v.t, None)

    def _direct(self, x: V, y: V) -> bool:
        """FREE mode: is this a comparison of a governed value with a constant?"""
        for f, c in ((x, y), (y, x)):
            if c.prov is None or c.prov[0] != "c" or f.prov is None:
                continue
            if f.prov[0] == "f" and f.prov[2] == "self" and f.prov[1] in self.governed:
                return True
            if f.prov[0] == "f" and (f.prov[2], f.prov[3], f.prov[1]) in self.governed:
                return True
            if f.prov[0] == "gi" and "GroupIndex" in self.governed:
                return True
            if f.prov[0] == "gs" and "GroupSize" in self.governed:
                return True
        return False

    def _note_runtime_cmp(self, x: V, y: V) -> None:
        for f, c in ((x, y), (y, x)):
            if f.prov and f.prov[0] == "f" and f.prov[1] in ADDR_FIELDS + ("Fee",):
                if not (c.prov and c.prov[0] == "c"):
                    self.runtime_cmp_governed = True


def _replace(st: _State, **kw: Any) -> _State:
    d = dict(st.__dict__)
    d.update(kw)
    return _State(**d)
