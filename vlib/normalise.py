"""Semantics-preserving rewrites used to attribute a violation to a *listed* known finding.

A violation found in program P is attributed to known finding KF only if KF's rewrite changes P
(the triggering feature is present) and the rewritten, semantically equivalent program P' no longer
shows a violation of the same obligation.  Any other violation is reported.
"""
from __future__ import annotations

import re
from typing import Callable, Dict, List, Optional

from vlib.tealsem import split_line

MIRROR = {"<": ">", "<=": ">=", ">": "<", ">=": "<="}
_CONST = re.compile(r"^(int|pushint)\s+\S+$|^intc(_[0-3]|\s+\d+)$")


def _code_lines(src: str) -> List[int]:
    return [i for i, l in enumerate(src.splitlines()) if split_line(l)]


def mirror_const_left_gs_gi(src: str) -> Optional[str]:
    """`int c; global GroupSize|txn GroupIndex; <op>`  ->  `<field>; int c; <mirrored op>` (ordered ops)."""
    lines = src.splitlines()
    idx = _code_lines(src)
    changed = False
    for a, b, c in zip(idx, idx[1:], idx[2:]):
        ta, tb, tc = (" ".join(split_line(lines[k])) for k in (a, b, c))
        if _CONST.match(ta) and tb in ("global GroupSize", "txn GroupIndex") and tc in MIRROR:
            lines[a], lines[b], lines[c] = tb, ta, MIRROR[tc]
            changed = True
    return "\n".join(lines) + "\n" if changed else None


def label_after_last_branch(src: str) -> Optional[str]:
    """A program whose last instruction is a conditional branch or a callsub: append a label, so that
    falling off the end passes through an instruction of its own (same executions)."""
    lines = src.splitlines()
    idx = _code_lines(src)
    if not idx:
        return None
    toks = split_line(lines[idx[-1]])
    if toks and toks[0] in ("bz", "bnz", "switch", "match", "callsub"):
        return "\n".join(lines + ["verif_end_label:"]) + "\n"
    return None


def falls_off_approved(src: str) -> bool:
    """Guard of KF-C06-last-branch-fallthrough for oracle-from-the-entry obligations (contexts, detector verdicts): the listed
    finding is about executions that fall off the end behind the trailing instruction and are APPROVED; a program in which no
    such execution exists (e.g. the stack is empty there) cannot show it.  Is there (reading every comparison as free) an execution that ends behind the last instruction and is approved?
    Undecided cases (unsupported opcode, exploration cut) count as yes: the attribution test itself decides then."""
    from vlib import symexec, tealsem as ts

    try:
        ex, _ = symexec.explore(ts.tokenize(src), mode="FREE", governed=())
    except Exception:  # pylint: disable=broad-except
        return True
    if any(r.cut for r in ex.results):
        return True
    return any(r.accepted and r.fell_off for r in ex.results)


PSEUDO_ZERO = "AAAAAAAAAAAAAAAAAAAAAAAAAAAAAAAAAAAAAAAAAAAAEVAL4QAJS7JHB4"
OTHER_ADDR = "AAAAAAAAAAAAAAAAAAAAAAAAAAAAAAAAAAAAAAAAAAAAAAAAAAETWN2UKU"


def rename_pseudo_zero_address(src: str) -> Optional[str]:
    """The literal tealer takes for the zero address is an ordinary non-zero address; renaming it to
    another non-zero address that the program does not name gives the same program up to the name of
    that constant."""
    if PSEUDO_ZERO not in src or OTHER_ADDR in src:
        return None
    return src.replace(PSEUDO_ZERO, OTHER_ADDR)


def drop_appid_oncompletion_checks(src: str) -> Optional[str]:
    """Not semantics-preserving in general; see known finding KF-C07-appid-oc: used only as a feature test."""
    return None


# ---------------------------------------------------------------------------------------------
# pins: the program tealer EFFECTIVELY analyses under a listed finding (not semantics-preserving).
# A violation is attributed to the finding only if tealer's observable results on P coincide with
# its results on pin(P) - i.e. the listed wrong behaviour, and nothing else, is what P shows.
# ---------------------------------------------------------------------------------------------


def textual_swap_const_left_gs_gi(src: str) -> Optional[str]:
    """KF-C06-const-left-order: `int c; <field>; <op>` is read as `<field>; int c; <op>` (operator NOT mirrored)."""
    lines = src.splitlines()
    idx = _code_lines(src)
    changed = False
    for a, b, c in zip(idx, idx[1:], idx[2:]):
        ta, tb, tc = (" ".join(split_line(lines[k])) for k in (a, b, c))
        if _CONST.match(ta) and tb in ("global GroupSize", "txn GroupIndex") and tc in MIRROR:
            lines[a], lines[b] = tb, ta
            changed = True
    return "\n".join(lines) + "\n" if changed else None


def err_after_last_branch(src: str) -> Optional[str]:
    """KF-C06-last-branch-fallthrough: executions that fall off the end behind a trailing branch / callsub are ignored,
    i.e. treated as if they failed."""
    lines = src.splitlines()
    idx = _code_lines(src)
    if not idx:
        return None
    toks = split_line(lines[idx[-1]])
    if toks and toks[0] in ("bz", "bnz", "switch", "match", "callsub"):
        return "\n".join(lines + ["verif_end_label:", "err"]) + "\n"
    return None


def pseudo_zero_as_global_zero(src: str) -> Optional[str]:
    """KF-C08-zero-address-constant: `addr <pseudo zero>` is taken for the zero address."""
    if PSEUDO_ZERO not in src:
        return None
    out = []
    for l in src.splitlines():
        t = split_line(l)
        out.append("global ZeroAddress" if t == ["addr", PSEUDO_ZERO] else l)
    return "\n".join(out) + "\n"


GUARDS: Dict[str, Callable[[str], bool]] = {"falls_off_approved": falls_off_approved}

PINS: Dict[str, Callable[[str], Optional[str]]] = {
    "textual_swap_const_left_gs_gi": textual_swap_const_left_gs_gi,
    "err_after_last_branch": err_after_last_branch,
    "pseudo_zero_as_global_zero": pseudo_zero_as_global_zero,
}


def observe(src: str, upto_line: Optional[int] = None) -> Optional[Dict[str, object]]:
    """Everything tealer computes for a single contract, keyed by source line: per-block contexts (own, gtxn, absolute,
    relative) and the paths of all path detectors.  None when the text is not a single TEAL contract tealer analyses."""
    from vlib import claims as cl
    from vlib.tealerio import Run

    try:
        run = Run(src)
    except Exception:  # pylint: disable=broad-except
        return None
    out: Dict[str, object] = {}
    for b in run.function.blocks:
        line = b.entry_instr.line
        if upto_line is not None and line > upto_line:
            continue
        ctx = run.ctx(b)
        d: Dict[str, object] = {"own": cl.describe_ctx(ctx)}
        for i in range(16):
            d[f"g{i}"] = cl.describe_ctx(ctx.gtxn_context(i))
            d[f"a{i}"] = cl.describe_ctx(ctx.absolute_context(i))
        for k in range(-15, 16):
            if k:
                d[f"r{k}"] = cl.describe_ctx(ctx.relative_context(k))
        out[f"block@{line}"] = d
    for det, paths in run.paths.items():
        out["paths:" + det] = sorted([[bb.entry_instr.line for bb in p] for p in paths])
    return out


def pin_holds(pin_name: str, src: str) -> Optional[bool]:
    """True: tealer treats P exactly like pin(P); False: it does not (something else is going on); None: not applicable."""
    pinned = PINS[pin_name](src)
    if pinned is None:
        return None
    last = len(src.splitlines())
    a = observe(src)
    b = observe(pinned, upto_line=last)
    if a is None or b is None:
        return None
    return a == b


NORMALISERS: Dict[str, Callable[[str], Optional[str]]] = {
    "mirror_const_left_gs_gi": mirror_const_left_gs_gi,
    "label_after_last_branch": label_after_last_branch,
    "rename_pseudo_zero_address": rename_pseudo_zero_address,
}


# ---------------------------------------------------------------------------------------------
# predicates: a listed finding that has no semantics-preserving normaliser is matched by a predicate
# over the *specific* failing claim, model and path
# ---------------------------------------------------------------------------------------------

_OC_APPID_READ = re.compile(r"^(txn|gtxn\s+\d+|gtxns)\s+(OnCompletion|ApplicationID)$")


def nonappl_kind_dropped_by_oc_appid_check(finding: dict, src: str) -> bool:
    """KF-C07-appid-oc: Pay/Axfer missing from a kind set, on a path that reads OnCompletion/ApplicationID."""
    if not finding.get("obligation", "").endswith("transaction_types[nonappl]"):
        return False
    lines = src.splitlines()
    path = finding.get("path_lines") or []
    if not path:
        return False
    # every instruction of the blocks on the path: from each block's first line up to the next block end;
    # cheap over-approximation: any OnCompletion/ApplicationID read in the program text that lies in a visited block
    from vlib import tealsem as ts

    p = ts.tokenize(src)
    start_of = ts.block_start_of(p)
    visited = set(path)
    for ins in p.ins:
        if p.ins[start_of[ins.idx]].line in visited and _OC_APPID_READ.match(" ".join([ins.op] + ins.args)):
            return _oc_appid_is_the_cause(finding, src)
    return False


def _without_oc_appid(src: str) -> str:
    """Diagnostic rewrite (NOT semantics-preserving): every OnCompletion / ApplicationID read becomes a read of a field
    tealer does not interpret, so whatever the listed finding removes from the kind sets is back."""
    out = []
    for l in src.splitlines():
        t = split_line(l)
        if t and _OC_APPID_READ.match(" ".join(t)):
            out.append(" ".join(t[:-1] + ["FirstValid"]))
        else:
            out.append(l)
    return "\n".join(out) + "\n"


def _oc_appid_is_the_cause(finding: dict, src: str) -> bool:
    """Localisation for KF-C07-appid-oc: with the OnCompletion / ApplicationID reads made opaque, the kind that was missing
    at the failing block is listed again.  If it is still missing, something else removed it: not this finding."""
    tag = finding.get("claim") or ""
    line = finding.get("block_line")
    model = finding.get("model") or {}
    if "context(" in tag or line is None or not model:
        return True  # claims about another group member: not localised (attributed as before)
    try:
        from tealer.utils.teal_enums import TealerTransactionType as T
        from vlib.tealerio import Run

        te = int(model["fields"]["TypeEnum"][str(model["gi"])])
        kind = {1: T.Pay, 4: T.Axfer}.get(te)
        if kind is None:
            return True
        run = Run(_without_oc_appid(src), detectors=[])
        b = run.block_at_line(line)
        if b is None:
            return True
        return kind in run.ctx(b).transaction_types
    except Exception:  # pylint: disable=broad-except
        return True


def _path_reads_oc_appid(finding: dict, src: str) -> bool:
    from vlib import tealsem as ts

    path = finding.get("path_lines") or []
    p = ts.tokenize(src)
    start_of = ts.block_start_of(p)
    visited = set(path)
    for ins in p.ins:
        if p.ins[start_of[ins.idx]].line in visited and _OC_APPID_READ.match(" ".join([ins.op] + ins.args)):
            return True
    return False


def close_detector_silent_after_oc_appid_check(finding: dict, src: str) -> bool:
    """KF-C07-appid-oc seen through C01: can-close-account / can-close-asset stay silent because Pay / Axfer
    was dropped by an OnCompletion / ApplicationID check on the approved path."""
    if finding.get("obligation") not in ("must-report:can-close-account", "must-report:can-close-asset"):
        return False
    if not _path_reads_oc_appid(finding, src):
        return False
    # localisation: with the OnCompletion / ApplicationID reads made opaque the detector reports; otherwise it is silent for
    # another reason and the violation is not this finding
    try:
        from vlib.tealerio import Run

        det = finding["obligation"].split(":", 1)[1]
        return bool(Run(_without_oc_appid(src), detectors=[det]).paths[det])
    except Exception:  # pylint: disable=broad-except
        return True


def hinted_early_exit_in_callee(finding: dict, src: str) -> bool:
    return (finding.get("extra") or {}).get("known_hint") == "KF-C12-early-exit-in-callee"


def hinted_path_through_loop(finding: dict, src: str) -> bool:
    return (finding.get("extra") or {}).get("known_hint") == "KF-C12-path-through-loop"


PREDICATES = {
    "hinted_early_exit_in_callee": hinted_early_exit_in_callee,
    "hinted_path_through_loop": hinted_path_through_loop,
    "close_detector_silent_after_oc_appid_check": close_detector_silent_after_oc_appid_check,
    "nonappl_kind_dropped_by_oc_appid_check": nonappl_kind_dropped_by_oc_appid_check,
}
