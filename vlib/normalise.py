"""Semantics-preserving rewrites used to attribute a violation to a *listed* known finding.

A violation found in program P is attributed to known finding KF only if KF's rewrite changes P
(the triggering feature is present) and the rewritten, semantically equivalent program P' no longer
shows a violation of the same obligation.  Any other violation is reported.
"""
from __future__ import annotations

import re
from typing import Callable, Dict, List, Optional

from vlib.tealsem import split_line

MIRROR = {"<": ">", "<=": ">=", ">": "<", ">=": "<="}
_CONST = re.compile(r"^(int|pushint)\s+\S+$|^intc(_[0-3]|\s+\d+)$")


def _code_lines(src: str) -> List[int]:
    return [i for i, l in enumerate(src.splitlines()) if split_line(l)]


def mirror_const_left_gs_gi(src: str) -> Optional[str]:
    """`int c; global GroupSize|txn GroupIndex; <op>`  ->  `<field>; int c; <mirrored op>` (ordered ops)."""
    lines = src.splitlines()
    idx = _code_lines(src)
    changed = False
    for a, b, c in zip(idx, idx[1:], idx[2:]):
        ta, tb, tc = (" ".join(split_line(lines[k])) for k in (a, b, c))
        if _CONST.match(ta) and tb in ("global GroupSize", "txn GroupIndex") and tc in MIRROR:
            lines[a], lines[b], lines[c] = tb, ta, MIRROR[tc]
            changed = True
    return "\n".join(lines) + "\n" if changed else None


def label_after_last_branch(src: str) -> Optional[str]:
    """A program whose last instruction is a conditional branch or a callsub: append a label, so that
    falling off the end passes through an instruction of its own (same executions)."""
    lines = src.splitlines()
    idx = _code_lines(src)
    if not idx:
        return None
    toks = split_line(lines[idx[-1]])
    if toks and toks[0] in ("bz", "bnz", "switch", "match", "callsub"):
        return "\n".join(lines + ["verif_end_label:"]) + "\n"
    return None


PSEUDO_ZERO = "AAAAAAAAAAAAAAAAAAAAAAAAAAAAAAAAAAAAAAAAAAAAEVAL4QAJS7JHB4"
OTHER_ADDR = "AAAAAAAAAAAAAAAAAAAAAAAAAAAAAAAAAAAAAAAAAAAAAAAAAAETWN2UKU"


def rename_pseudo_zero_address(src: str) -> Optional[str]:
    """The literal tealer takes for the zero address is an ordinary non-zero address; renaming it to
    another non-zero address that the program does not name gives the same program up to the name of
    that constant."""
    if PSEUDO_ZERO not in src or OTHER_ADDR in src:
        return None
    return src.replace(PSEUDO_ZERO, OTHER_ADDR)


def drop_appid_oncompletion_checks(src: str) -> Optional[str]:
    """Not semantics-preserving in general; see known finding KF-C07-appid-oc: used only as a feature test."""
    return None


NORMALISERS: Dict[str, Callable[[str], Optional[str]]] = {
    "mirror_const_left_gs_gi": mirror_const_left_gs_gi,
    "label_after_last_branch": label_after_last_branch,
    "rename_pseudo_zero_address": rename_pseudo_zero_address,
}


# ---------------------------------------------------------------------------------------------
# predicates: a listed finding that has no semantics-preserving normaliser is matched by a predicate
# over the *specific* failing claim, model and path
# ---------------------------------------------------------------------------------------------

_OC_APPID_READ = re.compile(r"^(txn|gtxn\s+\d+|gtxns)\s+(OnCompletion|ApplicationID)$")


def nonappl_kind_dropped_by_oc_appid_check(finding: dict, src: str) -> bool:
    """KF-C07-appid-oc: Pay/Axfer missing from a kind set, on a path that reads OnCompletion/ApplicationID."""
    if not finding.get("obligation", "").endswith("transaction_types[nonappl]"):
        return False
    lines = src.splitlines()
    path = finding.get("path_lines") or []
    if not path:
        return False
    # every instruction of the blocks on the path: from each block's first line up to the next block end;
    # cheap over-approximation: any OnCompletion/ApplicationID read in the program text that lies in a visited block
    from vlib import tealsem as ts

    p = ts.tokenize(src)
    start_of = ts.block_start_of(p)
    visited = set(path)
    for ins in p.ins:
        if p.ins[start_of[ins.idx]].line in visited and _OC_APPID_READ.match(" ".join([ins.op] + ins.args)):
            return True
    return False


def _path_reads_oc_appid(finding: dict, src: str) -> bool:
    from vlib import tealsem as ts

    path = finding.get("path_lines") or []
    p = ts.tokenize(src)
    start_of = ts.block_start_of(p)
    visited = set(path)
    for ins in p.ins:
        if p.ins[start_of[ins.idx]].line in visited and _OC_APPID_READ.match(" ".join([ins.op] + ins.args)):
            return True
    return False


def close_detector_silent_after_oc_appid_check(finding: dict, src: str) -> bool:
    """KF-C07-appid-oc seen through C01: can-close-account / can-close-asset stay silent because Pay / Axfer
    was dropped by an OnCompletion / ApplicationID check on the approved path."""
    if finding.get("obligation") not in ("must-report:can-close-account", "must-report:can-close-asset"):
        return False
    return _path_reads_oc_appid(finding, src)


def hinted_early_exit_in_callee(finding: dict, src: str) -> bool:
    return (finding.get("extra") or {}).get("known_hint") == "KF-C12-early-exit-in-callee"


def hinted_path_through_loop(finding: dict, src: str) -> bool:
    return (finding.get("extra") or {}).get("known_hint") == "KF-C12-path-through-loop"


PREDICATES = {
    "hinted_early_exit_in_callee": hinted_early_exit_in_callee,
    "hinted_path_through_loop": hinted_path_through_loop,
    "close_detector_silent_after_oc_appid_check": close_detector_silent_after_oc_appid_check,
    "nonappl_kind_dropped_by_oc_appid_check": nonappl_kind_dropped_by_oc_appid_check,
}
