#!/usr/bin/env python3
"""Create (idempotently) the overlay virtualenv /verif/.venv used by all checks.

/venv (the repository's environment) and the system pythons are left untouched: the overlay is a
fresh venv whose .pth file adds /venv's site-packages and /repo, and into which crosshair-tool
(with z3-solver) is installed from the offline wheelhouse.
"""
import os
import subprocess
import sys
import fcntl

VERIF = os.path.dirname(os.path.dirname(os.path.abspath(__file__)))
VENV = os.path.join(VERIF, ".venv")
PY = os.path.join(VENV, "bin", "python")
WHEELS = "/opt/veriftools/wheels"
BASE_PY = "/venv/bin/python"
BASE_SITE = "/venv/lib/python3.12/site-packages"


def _ok() -> bool:
    if not os.path.exists(PY):
        return False
    r = subprocess.run(
        [PY, "-c", "import crosshair, z3, tealer, jsonschema; print(z3.get_version_string())"],
        capture_output=True,
        text=True,
        env=dict(os.environ, PYTHONHASHSEED="0"),
    )
    return r.returncode == 0


def ensure(verbose: bool = False) -> str:
    if _ok():
        return PY
    lock = open(os.path.join(VERIF, ".venv.lock"), "w")
    fcntl.flock(lock, fcntl.LOCK_EX)
    try:
        if _ok():
            return PY
        subprocess.run(["rm", "-rf", VENV], check=True)
        subprocess.run([BASE_PY, "-m", "venv", VENV], check=True)
        site = subprocess.run(
            [PY, "-c", "import site; print(site.getsitepackages()[0])"],
            capture_output=True,
            text=True,
            check=True,
        ).stdout.strip()
        with open(os.path.join(site, "verif_overlay.pth"), "w") as f:
            f.write(f"import site; site.addsitedir({BASE_SITE!r})\n")
            f.write("/repo\n")
        r = subprocess.run(
            [
                PY,
                "-m",
                "pip",
                "install",
                "--quiet",
                "--no-index",
                "--find-links",
                WHEELS,
                "crosshair-tool",
                "jsonschema",
            ],
            capture_output=True,
            text=True,
        )
        if r.returncode != 0:
            sys.stderr.write(r.stdout + r.stderr)
            raise SystemExit(3)
        if not _ok():
            sys.stderr.write("bootstrap: overlay venv not usable\n")
            raise SystemExit(3)
        if verbose:
            print("bootstrap: created", VENV)
        return PY
    finally:
        fcntl.flock(lock, fcntl.LOCK_UN)
        lock.close()


if __name__ == "__main__":
    ensure(verbose=True)
    print("bootstrap: ok")
