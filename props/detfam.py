"""Program family shared by the detector properties C01 / C02 / C03 (all governed fields)."""
from __future__ import annotations

from typing import Any, Dict, List, Tuple

from props import families
from props.common import Ctx
from vlib import tealgen as tg

T = lambda f: ("txn", f)  # noqa: E731


def atoms() -> Dict[str, List[Any]]:
    return {
        "rekey": tg.addr_atoms(T("RekeyTo"), (("zero",), ("addr", tg.A1), ("creator",))),
        "crt": tg.addr_atoms(T("CloseRemainderTo"), (("zero",), ("addr", tg.A1))),
        "act": tg.addr_atoms(T("AssetCloseTo"), (("zero",), ("addr", tg.ZERO))),
        "sender": tg.addr_atoms(T("Sender"), (("creator",), ("addr", tg.A2))),
        "fee": tg.int_atoms(T("Fee"), (0, 1000, 272000, 272001), ("<=", "<", "==", ">")),
        "type": [tg.Atom(T("TypeEnum"), op, ("named", n), o) for op in ("==", "!=") for n in ("pay", "axfer", "appl") for o in ("fc", "cf")],
        "oc": [tg.Atom(T("OnCompletion"), op, ("named", n), o) for op in ("==", "!=") for n in ("NoOp", "UpdateApplication", "DeleteApplication") for o in ("fc", "cf")],
        "gs": tg.int_atoms(("global", "GroupSize"), (1, 2, 15, 16), ("==", "<", "<=", "!=")),
    }


def family(ctx: Ctx, thorough_budget: int = 4, quick_cap: int = 1200) -> List[Tuple[str, str, Dict[str, Any]]]:
    A = atoms()
    full = A["rekey"] + A["crt"] + A["act"] + A["sender"] + A["fee"] + A["type"] + A["oc"]
    oc_ne_upd = tg.Atom(T("OnCompletion"), "!=", ("named", "UpdateApplication"))
    oc_eq_del = tg.Atom(T("OnCompletion"), "==", ("named", "DeleteApplication"), "cf")
    small = [A["rekey"][0], A["crt"][3], A["sender"][0], A["fee"][0], A["fee"][7], A["type"][0], oc_ne_upd, oc_eq_del]
    shape_atoms = [A["rekey"][0], oc_ne_upd, A["fee"][1], A["crt"][0]]
    layout_atoms = [A["rekey"][0], A["fee"][0], oc_ne_upd, A["type"][0]]
    pairs = (A["type"][:6] + A["oc"][:4], A["crt"][:4] + A["sender"][:4] + A["act"][:2])
    if ctx.quick:
        shape_atoms = [shape_atoms[ctx.seed % 4], shape_atoms[(ctx.seed + 1) % 4]]
    progs = families.family_d(ctx.quick, ctx.seed, full, small, shape_atoms, layout_atoms, pairs,
                              thorough_budget=thorough_budget, quick_cap=quick_cap, unroll3_slice=False)
    # group-size-check: programs that read another transaction by absolute index
    pre = (tg.Use("gtxn_read", 0),)
    gsf = families.family_d(ctx.quick, ctx.seed, A["gs"], A["gs"][:3], [A["gs"][0]] if ctx.quick else [A["gs"][0], A["gs"][9]], [A["gs"][0], A["gs"][5]],
                            ([], []), pre=pre, with_corpus=False, thorough_budget=3, quick_cap=300, unroll3_slice=False)
    progs += [("gs/" + n, s, sp) for n, s, sp in gsf]
    for use in (tg.Use("gtxns_read", 1), tg.Use("rel_read", 1), tg.Use("pad")):
        for a in A["gs"][:8]:
            progs.append((f"gsu/{use.kind}-{a.op}{a.const[1]}{a.order}", tg.emit(tg.Program((use, tg.Check(a, "assert"), tg.Exit("approve")))), {}))
    # checks made through gtxn forms, with and without a pin of the own index
    GI, GS = ("txn", "GroupIndex"), ("global", "GroupSize")
    pins = [None, tg.Atom(GI, "==", ("int", 1)), tg.Atom(GI, "==", ("int", 0)), tg.Atom(GI, "!=", ("int", 1)), tg.Atom(GS, "==", ("int", 2)), tg.Atom(GI, "==", ("int", 1), "cf")]
    gchecks = []
    for ref in (("gtxn", 1, "RekeyTo"), ("gtxns_int", 1, "RekeyTo"), ("gtxns_rel", -1, "RekeyTo"), ("gtxns_self", "RekeyTo")):
        if ref[0] == "gtxns_self":
            continue
        gchecks.append(tg.Atom(ref, "==", ("zero",)))
    gchecks.append(tg.Atom(("gtxn", 1, "Fee"), "<=", ("int", 1000)))
    gchecks.append(tg.Atom(("gtxn", 1, "OnCompletion"), "!=", ("named", "UpdateApplication")))
    gchecks.append(tg.Atom(("gtxn", 0, "CloseRemainderTo"), "==", ("zero",), "cf"))
    for i, pin in enumerate(pins):
        for j, chk in enumerate(gchecks):
            for how in ("assert", "bz_reject"):
                pre_ = () if pin is None else (tg.Check(pin, "assert"),)
                progs.append((f"gx/{i}-{j}-{how}", tg.emit(tg.Program(pre_ + (tg.Check(chk, how), tg.Exit("approve")))), {}))
                if pin is not None:
                    progs.append((f"gxif/{i}-{j}-{how}", tg.emit(tg.Program((tg.If(pin, (tg.Check(chk, how), tg.Exit("approve")), (tg.Exit("approve"),), "bz"),))), {}))
    return progs
