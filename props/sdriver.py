"""Generic driver for engine-S families: run a per-program check in a process pool, attribute
findings to listed known findings through their normalisers, collect coverage."""
from __future__ import annotations

import os
import re
from typing import Any, Callable, Dict, List, Optional, Sequence, Tuple

from props import common
from props.common import Ctx, Outcome
from vlib.normalise import GUARDS, NORMALISERS, PREDICATES, pin_holds

# check functions are registered by the property modules before the pool forks
CHECKS: Dict[str, Callable[[str, Dict[str, Any]], Tuple[List[Any], Any]]] = {}


def _attribute(check: Callable[..., Any], src: str, spec: Dict[str, Any], f: Any, known: Sequence[Dict[str, Any]], depth: int = 0) -> Optional[str]:
    if re.search(r"crash|build|raised", f.kind):
        # no listed finding is an internal error of tealer: an exception on a valid program is always reported
        return None
    for k in known:
        m = k.get("match", {})
        preds = m.get("predicate", [])
        if isinstance(preds, str):
            preds = [preds]
        if any(PREDICATES[pn](f.to_json(), src) for pn in preds):
            return k["id"]
        if "normaliser" not in m:
            continue
        if "obligation" in m and not re.search(m["obligation"], f.kind):
            continue
        if "guard" in m and re.search(m.get("guard_kinds", "."), f.kind) and not GUARDS[m["guard"]](src):
            continue
        norm = NORMALISERS[m["normaliser"]](src)
        if norm is None or norm == src:
            continue
        fs2, _ = check(norm, spec)
        same = [g for g in fs2 if g.kind == f.kind and g.block_line == f.block_line]
        if same and depth < 2:
            # two listed findings can meet in one program (e.g. an OnCompletion check consumed by a trailing branch): the
            # violation that remains in the normalised program must itself be attributable to ANOTHER listed finding
            rest = [k2 for k2 in known if k2["id"] != k["id"]]
            if not all(g.replayed and _attribute(check, norm, spec, g, rest, depth + 1) for g in same):
                continue
            same = []
        if not same:
            if "pin" in m and pin_holds(m["pin"], src) is False:
                # tealer does not treat the program the way the listed finding says: this is something else
                continue
            return k["id"]
    return None


def _tealer_crash(e: BaseException) -> Optional[str]:
    """'file:line in function' when the exception was raised inside tealer's own code (innermost frame), else None."""
    import traceback

    tb = traceback.extract_tb(e.__traceback__)
    if not tb:
        return None
    fr = tb[-1]
    fn = fr.filename.replace("\\", "/")
    if "/tealer/" in fn and "/verif/" not in fn and "site-packages/crosshair" not in fn:
        return f"{fn.split('/tealer/', 1)[1]}:{fr.lineno} in {fr.name}"
    return None


def work(item: Tuple[str, str, str, Dict[str, Any], Sequence[Dict[str, Any]]]) -> Dict[str, Any]:
    check_id, name, src, spec, known = item
    check = CHECKS[check_id]
    try:
        findings, st = check(src, spec)
    except Exception as e:  # pylint: disable=broad-except
        crash = _tealer_crash(e)
        if crash is None:
            raise  # an error of the harness itself: reported as such by the pool
        try:
            check(src, spec)
            again = False
        except Exception as e2:  # pylint: disable=broad-except
            again = type(e2) is type(e)
        from vlib.scheck import ProgStats

        st = ProgStats()
        st.skipped = "tealer raised"
        j = {"property": None, "engine": "S", "obligation": "crash:tealer", "program": src, "replayed": again, "known_id": None, "program_name": name,
             "what": f"tealer raised {type(e).__name__}: {e} on a valid program of the family while its results were read ({crash})",
             "model": None, "path_lines": None, "block_line": None, "claim": "", "tealer_observed": None, "extra": {}}
        return {"name": name, "findings": [j], "paths": 0, "accepting": 0, "cut": 0, "queries": {"sat": 0, "unsat": 0, "unknown": 0}, "solver_s": 0.0,
                "tealer_s": 0.0, "skipped": "tealer raised", "nontrivial": False, "extra": {}, "src": src}
    out = []
    for f in findings:
        j = f.to_json()
        j["program_name"] = name
        j["known_id"] = _attribute(check, src, spec, f, known) if f.replayed else None
        out.append(j)
    return {
        "name": name,
        "findings": out,
        "paths": st.paths,
        "accepting": st.accepting,
        "cut": st.cut,
        "queries": st.queries,
        "solver_s": st.solver_s,
        "tealer_s": st.tealer_s,
        "skipped": st.skipped,
        "nontrivial": st.nontrivial,
        "extra": getattr(st, "extra", {}),
        "src": src,
    }


def run_family(ctx: Ctx, check_id: str, programs: Sequence[Tuple[str, str, Dict[str, Any]]], outcome: Outcome,
               max_samples: int = 4) -> Dict[str, Any]:
    known = common.load_known(ctx.prop)
    kmap = {k["id"]: k for k in known}
    items = [(check_id, name, src, spec, known) for name, src, spec in programs]
    cov: Dict[str, Any] = {
        "programs": 0, "paths": 0, "accepting_paths": 0, "cut_paths": 0, "skipped": 0,
        "queries": {"sat": 0, "unsat": 0, "unknown": 0}, "solver_s": 0.0, "tealer_s": 0.0,
        "nontrivial_programs": 0, "disagreements_checked": 0, "samples": [], "cut_programs": [],
    }
    distinct = set()
    cross_dir = None
    if not ctx.quick or os.environ.get("VERIF_CROSSCHECK"):
        # thorough tier: a sample of the queries is dumped as SMT-LIB and re-decided by two more solvers afterwards
        from vlib import crosscheck

        cross_dir = crosscheck.begin(f"{check_id}_{ctx.tier}", os.path.join(common.VERIF, ".work"))
    for res in common.pool_map(work, items):
        if res[0] == "err":
            outcome.harness_errors.append(f"{check_id}: worker failed: {res[1][:600]}")
            continue
        r = res[1]
        cov["programs"] += 1
        distinct.add(r["src"])
        cov["paths"] += r["paths"]
        cov["accepting_paths"] += r["accepting"]
        cov["cut_paths"] += r["cut"]
        if r["cut"] and len(cov["cut_programs"]) < 20:
            cov["cut_programs"].append(r["name"])
        if r["skipped"]:
            cov["skipped"] += 1
        for k in ("sat", "unsat", "unknown"):
            cov["queries"][k] += r["queries"][k]
        cov["solver_s"] += r["solver_s"]
        cov["tealer_s"] += r["tealer_s"]
        if r["nontrivial"]:
            cov["nontrivial_programs"] += 1
        common.merge_counts(cov.setdefault("counters", {}), r.get("extra", {}))
        if r["queries"]["unknown"]:
            outcome.inconclusive.append(f"{check_id}:{r['name']} ({r['queries']['unknown']} unknown)")
        if len(cov["samples"]) < max_samples and (r["nontrivial"] or not cov["samples"]):
            cov["samples"].append({"program": r["src"], "paths": r["paths"], "accepting": r["accepting"], "queries": r["queries"],
                                   "verdict": "no disagreement" if not r["findings"] else f"{len(r['findings'])} disagreement(s): " + str(r["findings"][0]["what"])[:200]})
        for j in r["findings"]:
            if j.get("property") is None:
                j["property"] = ctx.prop
            cov["disagreements_checked"] += 1
            if not j["replayed"]:
                outcome.harness_errors.append(f"{check_id}:{r['name']}: counterexample did not replay: {j['what']}")
            elif j["known_id"]:
                outcome.add_known(kmap[j["known_id"]], r["name"])
            else:
                outcome.violations.append(j)
    cov["distinct_programs"] = len(distinct)
    if cross_dir is not None:
        cc = crosscheck.end(cross_dir)
        for dis in cc["disagreements"][:5]:
            outcome.harness_errors.append(f"{check_id}: solver disagreement: z3 API says {dis['z3_api']}, {dis['solver']} says {dis['got']} on a dumped query")
        cc["disagreements"] = len(cc["disagreements"])
        cov["solver_crosscheck"] = cc
    cov["solver_s"] = round(cov["solver_s"], 2)
    cov["tealer_s"] = round(cov["tealer_s"], 2)
    return cov
