"""Program sources shared by the property drivers: the repository's own corpus, replay helper."""
from __future__ import annotations

import glob
import os
import re
from functools import lru_cache
from typing import Any, Callable, Dict, List, Tuple

from vlib import tealsem as ts
from vlib import cfgsem

REPO = "/repo"
_TRIPLE = re.compile(r'"""(.*?)"""', re.S)


@lru_cache(maxsize=None)
def corpus_all() -> Tuple[Tuple[str, str], ...]:
    """Every TEAL text of the repository's tests (files and string literals in test modules)."""
    out: List[Tuple[str, str]] = []
    seen = set()
    for path in sorted(glob.glob(os.path.join(REPO, "tests", "**", "*.teal"), recursive=True)):
        with open(path, encoding="utf-8") as f:
            src = f.read()
        if src not in seen:
            seen.add(src)
            out.append((os.path.relpath(path, REPO), src))
    for path in sorted(glob.glob(os.path.join(REPO, "tests", "**", "*.py"), recursive=True)):
        with open(path, encoding="utf-8") as f:
            text = f.read()
        for i, m in enumerate(_TRIPLE.finditer(text)):
            body = m.group(1)
            if "#pragma version" not in body:
                continue
            src = body.strip() + "\n"
            if src not in seen:
                seen.add(src)
                out.append((f"{os.path.relpath(path, REPO)}#{i}", src))
    return tuple(out)


def in_fragment(src: str) -> bool:
    """Assembler-valid for our purposes: every branch/call target exists, opcodes are modelled or generic."""
    try:
        p = ts.tokenize(src)
    except Exception:  # pylint: disable=broad-except
        return False
    if not p.ins:
        return False
    return cfgsem.labels_resolved(p) and cfgsem.is_structured(p)


@lru_cache(maxsize=None)
def corpus(max_ins: int = 200) -> Tuple[Tuple[str, str], ...]:
    """Corpus programs small enough for path-by-path symbolic execution (engine S); engine G takes all."""
    return tuple((n, s) for n, s in corpus_all() if in_fragment(s) and len(ts.tokenize(s).ins) <= max_ins)


def replay_s(payload: Dict[str, Any], check: Callable[[str, Dict[str, Any]], Tuple[List[Any], Any]]) -> int:
    """Re-run real tealer and the oracle on the stored program; REPRODUCED iff the same obligation fails."""
    if payload.get("engine") == "K":
        from vlib import chrunner

        path = os.path.join(chrunner.WORK, payload["module"] + ".py")
        print("K replay: regenerate the harness module with the quick command, then call", payload["call"])
        return 0
    src = payload["program"]
    findings, _ = check(src, payload.get("spec", {}))
    for f in findings:
        if f.kind == payload["obligation"] and f.block_line == payload.get("block_line"):
            print("REPRODUCED:", f.what)
            return 1
    print("NOT-REPRODUCED")
    return 0
