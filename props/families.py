"""Program sources shared by the property drivers: the repository's own corpus, replay helper."""
from __future__ import annotations

import glob
import os
import re
from functools import lru_cache
from typing import Any, Callable, Dict, List, Tuple

from vlib import tealsem as ts
from vlib import cfgsem

REPO = "/repo"
_TRIPLE = re.compile(r'"""(.*?)"""', re.S)


@lru_cache(maxsize=None)
def corpus_all() -> Tuple[Tuple[str, str], ...]:
    """Every TEAL text of the repository's tests (files and string literals in test modules)."""
    out: List[Tuple[str, str]] = []
    seen = set()
    for path in sorted(glob.glob(os.path.join(REPO, "tests", "**", "*.teal"), recursive=True)):
        with open(path, encoding="utf-8") as f:
            src = f.read()
        if src not in seen:
            seen.add(src)
            out.append((os.path.relpath(path, REPO), src))
    for path in sorted(glob.glob(os.path.join(REPO, "tests", "**", "*.py"), recursive=True)):
        with open(path, encoding="utf-8") as f:
            text = f.read()
        for i, m in enumerate(_TRIPLE.finditer(text)):
            body = m.group(1)
            if "#pragma version" not in body:
                continue
            src = body.strip() + "\n"
            if src not in seen:
                seen.add(src)
                out.append((f"{os.path.relpath(path, REPO)}#{i}", src))
    return tuple(out)


def in_fragment(src: str) -> bool:
    """Assembler-valid for our purposes: every branch/call target exists, opcodes are modelled or generic."""
    try:
        p = ts.tokenize(src)
    except Exception:  # pylint: disable=broad-except
        return False
    if not p.ins:
        return False
    return cfgsem.labels_resolved(p) and cfgsem.is_structured(p)


@lru_cache(maxsize=None)
def corpus(max_ins: int = 200) -> Tuple[Tuple[str, str], ...]:
    """Corpus programs small enough for path-by-path symbolic execution (engine S); engine G takes all."""
    return tuple((n, s) for n, s in corpus_all() if in_fragment(s) and len(ts.tokenize(s).ins) <= max_ins)


def replay_s(payload: Dict[str, Any], check: Callable[[str, Dict[str, Any]], Tuple[List[Any], Any]]) -> int:
    """Re-run real tealer and the oracle on the stored program; REPRODUCED iff the same obligation fails."""
    if payload.get("engine") == "K":
        from vlib import chrunner

        path = os.path.join(chrunner.WORK, payload["module"] + ".py")
        print("K replay: regenerate the harness module with the quick command, then call", payload["call"])
        return 0
    src = payload["program"]
    findings, _ = check(src, payload.get("spec", {}))
    for f in findings:
        if f.kind == payload["obligation"] and f.block_line == payload.get("block_line"):
            print("REPRODUCED:", f.what)
            return 1
    print("NOT-REPRODUCED")
    return 0


# ---------------------------------------------------------------------------------------------
# family D: programs whose governed checks are drawn from given atom alphabets
# ---------------------------------------------------------------------------------------------

from vlib import tealgen as tg  # noqa: E402


def family_d(
    quick: bool,
    seed: int,
    atoms_full: List[Any],
    atoms_small: List[Any],
    shape_atoms: List[Any],
    layout_atoms: List[Any],
    pair_atoms: Tuple[List[Any], List[Any]] = ([], []),
    pre: Tuple = (),
    with_corpus: bool = True,
    thorough_budget: int = 4,
    quick_cap: int = 2500,
    unroll3_slice: bool = True,
) -> List[Tuple[str, str, Dict[str, Any]]]:
    """The generic bounded-exhaustive family (DESIGN.md section 3).

    (a) one-check programs over ``atoms_full`` x 4 consumers           (exhaustive core)
    (b) condition trees (depth <= 2) around ``atoms_small``
    (d) all statement shapes with <= 3 statements, one governed hole from ``shape_atoms``
    (e) hand-written layouts around ``layout_atoms``
    (g) two governed checks on one path (``pair_atoms``)
    (h) the repository's own contracts
    (f) thorough only (quick: seed-selected 1/16 slice): shapes with <= 4 statements, two governed holes
    ``pre`` = statements put in front of every generated main (e.g. a gtxn read).
    """
    progs: List[Tuple[str, str, Dict[str, Any]]] = []

    def add(name: str, p: Any, spec: Dict[str, Any] = None) -> None:  # type: ignore[assignment]
        try:
            src = p if isinstance(p, str) else tg.emit(p)
        except ValueError:
            return
        progs.append((name, src, spec or {}))

    def withpre(p: Any) -> Any:
        if not pre:
            return p
        return tg.Program(tuple(pre) + tuple(p.main), p.subs, p.version, p.subs_first)

    for name, p in tg.one_check_programs(atoms_full):
        add("a/" + name, withpre(p))
    for i, a in enumerate(atoms_small):
        for j, cv in enumerate(tg.cond_variants(a, 2)[1:]):
            for how in ("assert", "bz_reject") if quick else ("assert", "bz_reject", "bnz_ok", "return"):
                main = (tg.Check(cv, how),) + (() if how == "return" else (tg.Exit("approve"),))
                add(f"b/{i}-{j}-{how}", withpre(tg.Program(main)))
    for name, p in tg.shape_programs(3, shape_atoms, 1):
        add("d/" + name, withpre(p))
    for k, a in enumerate(layout_atoms):
        for name, src in tg.layout_programs(a):
            add(f"e/{name}/{k}", src)
    for i, a in enumerate(pair_atoms[0]):
        for j, b in enumerate(pair_atoms[1]):
            add(f"g/{i}-{j}", withpre(tg.Program((tg.Check(a, "assert"), tg.Check(b, "bz_reject"), tg.Exit("approve")))))
            add(f"g2/{i}-{j}", withpre(tg.Program((tg.If(a, (tg.Check(b, "assert"), tg.Exit("approve")), (tg.Exit("approve"),), "bz"),))))
    if with_corpus:
        for name, src in corpus():
            add("h/" + name, src)
    extra: List[Tuple[str, str, Dict[str, Any]]] = []
    for name, p in tg.shape_programs(thorough_budget, shape_atoms[:2], 1):
        try:
            extra.append(("f/" + name, tg.emit(withpre(p)), {}))
        except ValueError:
            pass
    for name, p in tg.shape_programs(3, shape_atoms[:2], 2, with_subs=True):
        try:
            extra.append(("f2/" + name, tg.emit(withpre(p)), {}))
        except ValueError:
            pass
    if quick:
        extra = tg.slice_of(extra, seed, 16)[:quick_cap]
    elif unroll3_slice:
        for name, src, _ in tg.slice_of(progs, 3, 16):
            extra.append((name + "/k3", src, {"unroll": 3}))
    return progs + extra


def merge_stats(s1: Any, s2: Any) -> Any:
    s1.paths += s2.paths
    s1.accepting += s2.accepting
    s1.cut += s2.cut
    for k in s1.queries:
        s1.queries[k] += s2.queries[k]
    s1.solver_s += s2.solver_s
    s1.tealer_s += s2.tealer_s
    s1.nontrivial = s1.nontrivial or s2.nontrivial
    if s2.skipped and not s1.skipped:
        s1.skipped = s2.skipped
    return s1


def s_evidence(prop: str, level: str, cov: Dict[str, Any], kcounts: Dict[str, int], kres: List[Any], rule: str,
               functions: List[Any], bounds: Dict[str, Any], assumptions: List[str]) -> Dict[str, Any]:
    from vlib.tealerio import source_sha, tree_sha

    return {
        "property_id": prop,
        "level": level,
        "coverage": {
            **cov,
            "evaluations": cov.get("programs", 0) + kcounts.get("obligations", 0),
            "distinct_nontrivial": cov.get("nontrivial_programs", 0) + kcounts.get("confirmed", 0),
            "rule": rule,
            "exhaustive": False,
            "k_obligations": kcounts,
            "k_samples": [{"harness": r.name, "verdict": r.verdict, "seconds": round(r.seconds, 1), "meta": r.meta} for r in kres[:6]],
            "functions_encoded": source_sha(functions),
            "bounds": bounds,
            "tealer_tree": tree_sha(),
        },
        "assumptions": assumptions,
    }
