"""C14 (narrow claim) - results depend on the input only: state isolation, order independence, read-only detectors."""
from __future__ import annotations

from typing import Any, Dict

from harness import gen_addr, gen_fee, gen_int_fields, gen_state, gen_wholeanalysis
from props import kprop
from props.common import Ctx


def run(ctx: Ctx) -> int:
    from tealer.analyses.dataflow.transaction_context.generic import DataflowTransactionContext as D
    from tealer.analyses.dataflow.transaction_context.int_fields import GroupIndices
    from tealer.detectors import utils as du

    return kprop.run_k(
        ctx, "C14",
        [gen_state, (gen_int_fields, r"^k_frame_", {}), (gen_addr, r"^k_addr_(frame|union|intersection)$", {}), (gen_fee, r"^k_lat_", {}),
         (gen_wholeanalysis, r"k_order_independent", {"only": "order"})],
        "narrow claim, decided by bounded symbolic execution (CrossHair/z3): (1) state isolation - for all constants every comparison kernel leaves the module-level universes, "
        "key lists and enumeration tuples equal to their previous value and returns fresh objects (mutating a result or a universal set does not change a later call); (2) order "
        "independence - union/intersection of every domain (integer sets, kinds, address representations over 10 symbolic Booleans, fee pairs) are commutative, associative, "
        "idempotent, absorbing and monotone, which makes the worklist fixpoint unique; the real forward/backward solvers of GroupIndices are run on a 4-block function and on a "
        "13-block function with three subroutines (shared callee, two call chains with different contexts) under a solver-chosen schedule (24 / 48-400 orders of both initial "
        "worklists; the choice is the symbolic variable, the analysis itself then runs concretely inside NoTracing) and give the same sets; (3) every detector, run on contexts with symbolic content, leaves them unchanged; (4) a contract with three functions that share two subroutines is analysed through init_tealer_from_config with a solver-chosen "
        "sequence of operations (all 6 orders of the three, plus sequences with repeats and subsets): the paths every path detector reports for an operation equal those reported when the operation is analysed alone; (5) history - five contracts that reuse label names, constants and "
        "subroutine shapes on purpose: after a solver-chosen history of 0-2 of them analysed in the same process, everything tealer computes for a target (all contexts of all blocks, all "
        "detector paths) equals the result of a fresh interpreter (one reference process per contract, started at import). Outside the "
        "technique: PYTHONHASHSEED, object-address order of list(set(..)), byte-identical JSON across processes - properties of interpreter runs, not of a function a solver can range over",
        [lambda: D.forward_analyis, lambda: D.backward_analysis, lambda: GroupIndices._get_asserted_int_values, lambda: du.validated_in_block, lambda: du.detect_missing_tx_field_validations],
        {"permutations": "24 orders of each initial worklist", "sets": "3-element universes per lattice law"},
        ["hash-seed / process-level determinism is not claimed"],
        timeout_quick=400, timeout_thorough=1200,
    )


def replay(payload: Dict[str, Any]) -> int:
    print("K replay:", payload.get("harness"), payload.get("call"))
    return 0
