"""C12 - a function cut out by a dispatch path has exactly that path's executions."""
from __future__ import annotations

import itertools
from typing import Any, Dict, List, Tuple

from props import common, families, sdriver
from props.common import Ctx, Outcome
from vlib import dcheck, tealgen as tg

T = lambda f: ("txn", f)  # noqa: E731


def check(src: str, spec: Dict[str, Any]) -> Tuple[List[Any], Any]:
    return dcheck.check_dispatch(src, "C12", max_len=spec.get("max_len", 3), max_paths=spec.get("max_paths", 10), unroll=spec.get("unroll", 2),
                                 with_exact=spec.get("exact", True))


sdriver.CHECKS["c12"] = check


def family(ctx: Ctx) -> List[Tuple[str, str, Dict[str, Any]]]:
    progs: List[Tuple[str, str, Dict[str, Any]]] = []
    spec = {"max_len": 3 if ctx.quick else 4, "max_paths": 8 if ctx.quick else 16}
    conds = [tg.Atom(T("OnCompletion"), "==", ("named", "UpdateApplication")), tg.Atom(T("OnCompletion"), "==", ("named", "DeleteApplication"), "cf"),
             tg.Opaque(1), tg.Atom(("global", "GroupSize"), "==", ("int", 2))]
    a_gs = tg.Atom(("global", "GroupSize"), "<=", ("int", 3))
    a_gi = tg.Atom(T("GroupIndex"), "==", ("int", 0))
    a_rk = tg.Atom(T("RekeyTo"), "==", ("zero",))
    a_fee = tg.Atom(T("Fee"), "<=", ("int", 1000))
    a_snd = tg.Atom(T("Sender"), "==", ("creator",))
    bodies = [(tg.Check(a_rk, "assert"),), (tg.Call("s1"),), (tg.Check(a_gi, "bz_reject"), tg.Call("s1"))]
    prologues = [(), (tg.Check(a_gs, "assert"),)]
    subs = [(tg.Check(a_fee, "assert"),), (), (tg.If(tg.Opaque(2), (tg.Check(a_snd, "assert"),), (), "bz"),)]
    n = 0
    all_p = []
    for c1, c2, b1, b2, pro, via, sb in itertools.product(conds, conds, bodies, bodies, prologues, ("bz", "bnz"), subs):
        n += 1
        main = pro + (tg.If(c1, b1 + (tg.Exit("approve"),), (), via), tg.If(c2, b2 + (tg.Exit("approve"),), (), via), tg.Exit("err"))
        uses = any(isinstance(x, tg.Call) for x in b1 + b2)
        prog = tg.Program(main, {"s1": sb} if uses else {})
        try:
            all_p.append((f"disp/{n}", tg.emit(prog), spec))
        except ValueError:
            pass
    progs += tg.slice_of(all_p, ctx.seed, 24 if ctx.quick else 3)
    # switch / match routers (TEAL v8): departures of a multi-way branch
    e = tg.Emitter(tg.Program(()))
    n2 = 0
    for router in (["txn NumAppArgs", "switch m1 m2"], ["int 3", "int 5", "txn NumAppArgs", "match m1 m2"], ["txn NumAppArgs", "switch m1 m2 m1"]):
        for b1, b2 in itertools.product([a_rk, a_gi, a_fee], [a_snd, a_gs]):
            for pro in ((), (a_gs,)):
                n2 += 1
                lines = ["#pragma version 8"]
                for c in pro:
                    lines += e.cond(c) + ["assert"]
                lines += router + ["err", "m1:"] + e.cond(b1) + ["assert", "callsub helper", "int 1", "return", "m2:"] + e.cond(b2) + ["bz no", "int 1", "return", "no:", "err",
                                                                                                                                  "helper:", "txn Amount", "pop", "retsub"]
                progs.append((f"router/{n2}", "\n".join(lines) + "\n", spec))
    # three-way dispatcher with a shared prologue (the probe of DESIGN.md), hand-written layouts, generic shapes
    at = tg.Atom(("global", "GroupSize"), "==", ("int", 2))
    for name, src in tg.layout_programs(at):
        progs.append(("hand/" + name, src, spec))
    shapes = []
    for name, p in tg.shape_programs(3, [at, a_rk], 1):
        try:
            shapes.append(("shape/" + name, tg.emit(p), dict(spec, max_paths=6)))
        except ValueError:
            pass
    progs += tg.slice_of(shapes, ctx.seed, 16 if ctx.quick else 2)
    for name, src in families.corpus(120):
        progs.append(("corpus/" + name, src, dict(spec, max_paths=5, exact=False)))
    return progs


def run(ctx: Ctx) -> int:
    outcome = Outcome()
    cov = sdriver.run_family(ctx, "c12", family(ctx), outcome)
    from tealer.teal import parse_functions as PF
    from tealer.teal.functions import Function

    ev = families.s_evidence(
        "C12", "translation_validation", cov, {}, [],
        "programs = two-way dispatchers (conditions on OnCompletion / GroupSize / opaque values, optional shared prologue, method bodies with checks and a shared helper "
        "subroutine), hand-written layouts, generic shapes, small corpus contracts; for every root-to-block prefix of the main graph (length <= 3 quick / 4 thorough) the real "
        "construct_function() is called and: structure (isomorphism for [B0], error blocks on every departure, shared subroutine objects, mirror relation by z3), contexts "
        "(EXACT soundness of all keys and FREE exactness of GroupSize/GroupIndex, with the symbolic executions restricted to those whose main-graph block sequence starts with "
        "the path), and - as by-products, not solver-decided - the contract's graph is unchanged and contexts do not depend on other functions built",
        [lambda: PF.construct_function, lambda: PF.copy_main_cfg, lambda: PF._apply_transaction_context_analysis, lambda: Function.__init__],
        {"max_path_len": 3 if ctx.quick else 4, "unroll": 2},
        ["the dispatch path is matched against the main-graph projection of the block trace (blocks of subroutine activations skipped)"],
    )
    c = cov.get("counters", {})
    ev["coverage"]["functions_built"] = int(c.get("functions_built", 0))
    return common.finish(ctx, outcome, ev)


def replay(payload: Dict[str, Any]) -> int:
    return families.replay_s(payload, check)
