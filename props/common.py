"""Shared driver code for the per-property checks: process pool, known findings, evidence, exit codes.

Exit codes: 0 = nothing violated on everything explored (inconclusive items are listed);
            1 = at least one replay-confirmed violation that known_findings.json does not list;
            3 = harness error (a counterexample that does not replay, a vacuous harness, a failing self-test).
"""
from __future__ import annotations

import hashlib
import json
import multiprocessing as mp
import os
import re
import sys
import time
import traceback
from dataclasses import dataclass, field
from typing import Any, Callable, Dict, Iterable, List, Optional, Sequence, Tuple

VERIF = os.path.dirname(os.path.dirname(os.path.abspath(__file__)))
EVIDENCE_DIR = os.path.join(VERIF, "evidence")
REPLAY_DIR = os.path.join(VERIF, "replays")
KNOWN_FILE = os.path.join(VERIF, "known_findings.json")
JOBS = int(os.environ.get("VERIF_JOBS", "16"))
MAX_REPLAYS = 40


@dataclass
class Ctx:
    prop: str
    tier: str
    seed: int
    t0: float = field(default_factory=time.time)

    @property
    def quick(self) -> bool:
        return self.tier == "quick"


# ---------------------------------------------------------------------------------------------
# known findings
# ---------------------------------------------------------------------------------------------


def load_known(prop: Optional[str] = None) -> List[Dict[str, Any]]:
    if not os.path.exists(KNOWN_FILE):
        return []
    with open(KNOWN_FILE) as f:
        data = json.load(f)
    out = [k for k in data.get("findings", []) if k.get("status", "open") == "open"]
    if prop is not None:
        out = [k for k in out if prop in k.get("properties", [k.get("property")])]
    return out


def match_known_k(known: Sequence[Dict[str, Any]], harness: str, call: str) -> Optional[Dict[str, Any]]:
    for k in known:
        m = k.get("match", {})
        if "harness" in m and re.search(m["harness"], harness):
            if "args" in m and not re.search(m["args"], call):
                continue
            return k
    return None


# ---------------------------------------------------------------------------------------------
# outcome collection
# ---------------------------------------------------------------------------------------------


@dataclass
class Outcome:
    violations: List[Dict[str, Any]] = field(default_factory=list)  # unlisted, replay-confirmed
    known_hits: Dict[str, Dict[str, Any]] = field(default_factory=dict)  # id -> {entry, count, example}
    harness_errors: List[str] = field(default_factory=list)
    inconclusive: List[str] = field(default_factory=list)
    notes: List[str] = field(default_factory=list)

    def add_known(self, entry: Dict[str, Any], example: str) -> None:
        h = self.known_hits.setdefault(entry["id"], {"entry": entry, "count": 0, "example": example})
        h["count"] += 1

    def merge(self, other: "Outcome") -> None:
        self.violations += other.violations
        for k, v in other.known_hits.items():
            h = self.known_hits.setdefault(k, {"entry": v["entry"], "count": 0, "example": v["example"]})
            h["count"] += v["count"]
        self.harness_errors += other.harness_errors
        self.inconclusive += other.inconclusive
        self.notes += other.notes


def write_replay(prop: str, payload: Dict[str, Any]) -> str:
    d = os.path.join(REPLAY_DIR, prop)
    os.makedirs(d, exist_ok=True)
    blob = json.dumps(payload, sort_keys=True, default=str)
    h = hashlib.sha256(blob.encode()).hexdigest()[:12]
    path = os.path.join(d, h + ".json")
    with open(path, "w") as f:
        json.dump(payload, f, indent=1, sort_keys=True, default=str)
    return path


def finish(ctx: Ctx, outcome: Outcome, evidence: Dict[str, Any]) -> int:
    """Print the verdict lines, write the evidence file, return the exit code."""
    for kid, h in sorted(outcome.known_hits.items()):
        e = h["entry"]
        print(f"KNOWN-FINDING: property={ctx.prop} {e['id']}: {e['what_fails']} (seen {h['count']}x this run)")
    shown = 0
    for v in outcome.violations[:MAX_REPLAYS]:
        path = write_replay(ctx.prop, v)
        print(f"VIOLATION property={ctx.prop} replay={path}")
        if shown < 5:
            print("    " + str(v.get("what", ""))[:300])
            shown += 1
    if len(outcome.violations) > MAX_REPLAYS:
        print(f"... and {len(outcome.violations) - MAX_REPLAYS} more violations of {ctx.prop} (replay files are written for the first {MAX_REPLAYS})")
    for e in outcome.harness_errors[:10]:
        print(f"HARNESS-ERROR property={ctx.prop} {e[:400]}")
    if outcome.inconclusive:
        print(f"INCONCLUSIVE property={ctx.prop} {len(outcome.inconclusive)} obligation(s): " + ", ".join(outcome.inconclusive[:8]) + (" ..." if len(outcome.inconclusive) > 8 else ""))
    evidence.setdefault("property_id", ctx.prop)
    evidence["tier"] = ctx.tier
    evidence["seed"] = ctx.seed
    evidence["wall_s"] = round(time.time() - ctx.t0, 2)
    evidence["violations"] = len(outcome.violations)
    cov = evidence.setdefault("coverage", {})
    cov["known_findings_hit"] = {k: v["count"] for k, v in outcome.known_hits.items()}
    cov["inconclusive"] = outcome.inconclusive[:200]
    cov["harness_errors"] = outcome.harness_errors[:50]
    cov["notes"] = outcome.notes[:50]
    write_evidence(ctx.prop, evidence)
    if outcome.harness_errors:
        code = 3
    elif outcome.violations:
        code = 1
    else:
        code = 0
    print(f"RESULT property={ctx.prop} tier={ctx.tier} violations={len(outcome.violations)} known={len(outcome.known_hits)} "
          f"inconclusive={len(outcome.inconclusive)} harness_errors={len(outcome.harness_errors)} wall_s={evidence['wall_s']} exit={code}")
    return code


def write_evidence(prop: str, evidence: Dict[str, Any]) -> None:
    os.makedirs(EVIDENCE_DIR, exist_ok=True)
    path = os.path.join(EVIDENCE_DIR, prop + ".json")
    try:
        import jsonschema

        with open("/root/.vp/EVIDENCE.schema.json") as f:
            schema = json.load(f)
        jsonschema.validate(json.loads(json.dumps(evidence, default=str)), schema)
    except FileNotFoundError:
        pass
    except Exception as e:  # pylint: disable=broad-except
        print(f"HARNESS-ERROR property={prop} evidence does not validate: {str(e)[:300]}")
        raise SystemExit(3)
    with open(path, "w") as f:
        json.dump(evidence, f, indent=1, sort_keys=True, default=str)


# ---------------------------------------------------------------------------------------------
# process pool
# ---------------------------------------------------------------------------------------------


def _init_worker() -> None:
    import logging

    logging.disable(logging.CRITICAL)
    sys.setrecursionlimit(20000)


def _guard(args: Tuple[Callable[[Any], Any], Any]) -> Any:
    fn, item = args
    try:
        return ("ok", fn(item))
    except Exception as e:  # pylint: disable=broad-except
        return ("err", f"{type(e).__name__}: {e}\n{traceback.format_exc()[-1500:]}", item if isinstance(item, (str, tuple)) else None)


def pool_map(fn: Callable[[Any], Any], items: Sequence[Any], jobs: int = JOBS, chunk: int = 8) -> Iterable[Any]:
    if not items:
        return
    if jobs <= 1 or len(items) < 4:
        _init_worker()
        for it in items:
            yield _guard((fn, it))
        return
    with mp.get_context("fork").Pool(jobs, initializer=_init_worker, maxtasksperchild=400) as pool:
        for r in pool.imap_unordered(_guard, [(fn, it) for it in items], chunksize=chunk):
            yield r


def merge_counts(a: Dict[str, Any], b: Dict[str, Any]) -> None:
    for k, v in b.items():
        if isinstance(v, (int, float)):
            a[k] = a.get(k, 0) + v
        elif isinstance(v, dict):
            merge_counts(a.setdefault(k, {}), v)


def k_results_to_outcome(ctx: Ctx, results: Sequence[Any], outcome: Outcome, modname: str) -> Dict[str, int]:
    """Fold CrossHair results into the outcome; returns counts."""
    known = load_known(ctx.prop)
    counts = {"obligations": 0, "confirmed": 0, "refuted": 0, "inconclusive": 0, "unavailable": 0, "known": 0}
    for r in results:
        counts["obligations"] += 1
        if r.verdict == "confirmed":
            counts["confirmed"] += 1
        elif r.verdict == "refuted":
            counts["refuted"] += 1
            k = match_known_k(known, r.name, r.call)
            if k is not None:
                counts["known"] += 1
                outcome.add_known(k, r.call)
            else:
                outcome.violations.append(
                    {
                        "property": ctx.prop,
                        "engine": "K",
                        "module": modname,
                        "harness": r.name,
                        "call": r.call,
                        "detail": r.detail,
                        "meta": r.meta,
                        "what": f"{r.name}: counterexample {r.call} ({r.detail})",
                    }
                )
        elif r.verdict in ("inconclusive",):
            counts["inconclusive"] += 1
            outcome.inconclusive.append(f"{modname}.{r.name}")
        elif r.verdict == "unavailable":
            counts["unavailable"] += 1
            outcome.notes.append(f"{modname}.{r.name}: not applicable on this tree ({r.detail})")
        elif r.verdict == "vacuous":
            outcome.harness_errors.append(f"{modname}.{r.name}: vacuous harness (twin confirmed)")
        else:
            outcome.harness_errors.append(f"{modname}.{r.name}: {r.verdict} {r.detail}")
    return counts
