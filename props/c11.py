"""C11 - reconstructed operands equal the operands the AVM would pass."""
from __future__ import annotations

import contextlib
import io
from typing import Any, Dict, List, Tuple

from harness import gen_imm, gen_stack
from props import common, families
from props.common import Ctx, Outcome, VERIF
from vlib import avmspec, chrunner
from vlib.chrunner import KResult

SAMPLE_IMM = {
    "intcblock": ["1 2"], "intc": ["0", "5"], "bytecblock": ["0x01"], "bytec": ["0"], "arg": ["0"], "txn": ["Fee", "Sender"], "global": ["GroupSize"], "gtxn": ["0 Fee"],
    "load": ["0"], "store": ["0"], "bnz": ["l"], "bz": ["l"], "b": ["l"], "int": ["1", "pay"], "byte": ["0x01", '"ab"'],
    "addr": ["AAAAAAAAAAAAAAAAAAAAAAAAAAAAAAAAAAAAAAAAAAAAAAAAAAAAY5HFKQ"], "method": ['"a()void"'], "txna": ["ApplicationArgs 0"], "gtxna": ["0 ApplicationArgs 0"],
    "substring": ["0 1"], "asset_holding_get": ["AssetBalance"], "asset_params_get": ["AssetTotal"], "dig": ["0", "2", "7"], "pushbytes": ["0x01"], "pushint": ["1"],
    "gtxns": ["Fee"], "gtxnsa": ["ApplicationArgs 0"], "callsub": ["l"], "gload": ["0 0"], "gloads": ["0"], "gaid": ["0"], "ecdsa_verify": ["Secp256k1"],
    "ecdsa_pk_decompress": ["Secp256k1"], "ecdsa_pk_recover": ["Secp256k1"], "cover": ["0", "2"], "uncover": ["0", "3"], "extract": ["0 1"], "app_params_get": ["AppGlobalNumUint"],
    "itxn_field": ["Fee"], "itxn": ["Fee"], "itxna": ["Logs 0"], "txnas": ["ApplicationArgs"], "gtxnas": ["0 ApplicationArgs"], "gtxnsas": ["ApplicationArgs"],
    "acct_params_get": ["AcctBalance"], "gitxn": ["0 Fee"], "gitxna": ["0 Logs 0"], "itxnas": ["Logs"], "gitxnas": ["0 Logs"], "base64_decode": ["URLEncoding"],
    "json_ref": ["JSONString"], "vrf_verify": ["VrfAlgorand"], "block": ["BlkSeed"], "replace2": ["0", "3"], "replace": ["", "0", "00", "0x0", "1"], "pushbytess": ["0x01 0x02", "0x01"], "pushints": ["1 2 3", "7"],
    "bury": ["1", "3"], "popn": ["0", "2"], "dupn": ["0", "2"], "proto": ["1 1"], "frame_dig": ["0", "-1"], "frame_bury": ["0"], "switch": ["a b", "a", "a a"], "match": ["a b", "a", "a a", "a b a"],
}


def table_check() -> List[KResult]:
    """Immediate-free part: a finite table, enumerated completely (no symbolic dimension)."""
    from tealer.teal.instructions.parse_instruction import parse_line

    out: List[KResult] = []
    for op in avmspec.OPS:
        for imm in SAMPLE_IMM.get(op, [""]):
            line = (op + " " + imm).strip()
            with contextlib.redirect_stdout(io.StringIO()), contextlib.redirect_stderr(io.StringIO()):
                try:
                    ins = parse_line(line)
                except Exception as e:  # pylint: disable=broad-except
                    out.append(KResult(f"table:{op}", "refuted", f"parse_line({line!r}) raised {type(e).__name__}: {e}", line, True))
                    continue
            if ins is None or type(ins).__name__ == "UnsupportedInstruction":
                out.append(KResult(f"table:{op}", "refuted", f"{line!r} is not parsed to an instruction", line, True))
                continue
            exp = avmspec.stack_effect(op, imm.split())
            got = (ins.stack_pop_size, ins.stack_push_size)
            if got == exp:
                out.append(KResult(f"table:{op}", "confirmed", "", line, None, 0.0, "reachable", {"line": line, "effect": list(exp)}))
            else:
                name = f"table:{op}"
                if op == "frame_bury" and got != (1, 1):
                    # the listed finding KF-C11-frame-bury is the declared effect (1, 1); any other wrong effect is a different violation
                    name = "table-other:frame_bury"
                out.append(KResult(name, "refuted", f"{line!r}: (pops, pushes) = {got}, AVM: {exp}", line, True, 0.0, "", {"line": line}))
    return out


def run(ctx: Ctx) -> int:
    outcome = Outcome()
    text = gen_stack.generate(VERIF, ctx.tier)
    kres = chrunner.run_module(text, f"k_c11_{ctx.tier}", timeout=120 if ctx.quick else 600)
    tres = table_check()
    # every instruction class with integer immediates (pseudo-ops included): stack effect for ALL immediate values
    kres = list(kres) + chrunner.run_module(gen_imm.generate(VERIF, ctx.tier, "fx"), f"k_c11_imm_{ctx.tier}", timeout=120 if ctx.quick else 600)
    kcounts = common.k_results_to_outcome(ctx, list(kres) + tres, outcome, "k_c11")
    from tealer.analyses.utils import stack_ast_builder as SB
    from tealer.teal.instructions import instructions as I

    cross = avmspec.pyteal_crosscheck()
    ev = {
        "property_id": "C11",
        "level": "other",
        "coverage": {
            "explanation": "bounded symbolic execution (CrossHair/z3) of the real emulation step Stack.pop_n_values for an arbitrary tracked stack (depth 0-4) and pop count (0-6), of "
                           "construct_stack_ast on a block of three instructions with symbolic stack effects against a reference execution over abstract value identities, and of "
                           "the stack effects of every opcode whose effect depends on its immediates (dig/cover/uncover/bury/popn/dupn n for all 0<=n<=255, pushints/pushbytess and "
                           "switch/match with 0-6 elements, proto, frame_dig/frame_bury) and of every instruction class that carries integer immediates at all (read from the live module; pseudo-ops "
                           "such as `replace [s]` included) for every immediate value 0..255; the immediate-free opcodes are a finite table (every opcode of TEAL v1-v8) compared "
                           "with an independent AVM table - that part is enumerated completely and has no symbolic dimension",
            "evaluations": kcounts["obligations"],
            "distinct_nontrivial": kcounts["confirmed"],
            "obligations": kcounts["obligations"],
            "discharged": kcounts["confirmed"],
            "k_obligations": kcounts,
            "rule": "one obligation per harness / per table row; non-trivial = confirmed over all paths with a reachable end (twin)",
            "samples": [{"harness": r.name, "verdict": r.verdict, "detail": r.detail[:120], "seconds": round(r.seconds, 1)} for r in list(kres)[:6] + tres[:4]],
            "functions_encoded": __import__("vlib.tealerio", fromlist=["source_sha"]).source_sha([lambda: SB.Stack.pop_n_values, lambda: SB.construct_stack_ast.__wrapped__, lambda: I.Dig, lambda: I.Cover, lambda: I.Uncover, lambda: I.Bury, lambda: I.Popn, lambda: I.Dupn, lambda: I.FrameBury]),
            "bounds": {"stack_depth": "0..4", "pops": "0..6", "immediates": "0..255", "crosshair_timeout_s": 120 if ctx.quick else 600},
            "avm_table_vs_pyteal": {k: (v if not isinstance(v, list) else v[:10]) for k, v in cross.items()},
            "exhaustive": False,
        },
        "assumptions": ["the independent AVM table (vlib/avmspec.py) is right; it agrees with pyteal on version and mode of all 169 shared opcodes",
                        "frame-pointer aliasing (frame_bury writing below the tracked region) and cross-block operands are outside the claim"],
    }
    return common.finish(ctx, outcome, ev)


def replay(payload: Dict[str, Any]) -> int:
    print("K replay:", payload.get("harness"), payload.get("call"))
    return 0
