"""C16 - each source line parses to the instruction it denotes, and prints back."""
from __future__ import annotations

import contextlib
import io
from typing import Any, Dict, List

from harness import gen_imm, gen_parse
from props import kprop
from props.c11 import SAMPLE_IMM
from props.common import Ctx
from vlib import avmspec
from vlib.chrunner import KResult


def _pl(line: str) -> Any:
    from tealer.teal.instructions.parse_instruction import parse_line

    with contextlib.redirect_stdout(io.StringIO()), contextlib.redirect_stderr(io.StringIO()):
        return parse_line(line)


def table_check() -> List[KResult]:
    """Finite part (enumerated completely, no symbolic dimension): dispatch of every opcode of the independent
    table, every field name, print/parse round trip, base64/base32 forms."""
    out: List[KResult] = []

    def row(name: str, ok: bool, detail: str, line: str) -> None:
        out.append(KResult(name, "confirmed" if ok else "refuted", "" if ok else detail, line, None if ok else True, 0.0, "reachable", {"line": line}))

    for op in avmspec.OPS:
        for imm in SAMPLE_IMM.get(op, [""]):
            line = (op + " " + imm).strip()
            try:
                ins = _pl(line)
            except Exception as e:  # pylint: disable=broad-except
                row(f"dispatch:{op}", False, f"parse_line({line!r}) raised {type(e).__name__}: {e}", line)
                continue
            if ins is None or type(ins).__name__ == "UnsupportedInstruction":
                row(f"dispatch:{op}", False, f"{line!r} is not recognised", line)
                continue
            printed = str(ins)
            ok = printed.split(" ")[0] == op
            row(f"dispatch:{op}", ok, f"{line!r} parsed as {type(ins).__name__} printing {printed!r}", line)
            try:
                again = _pl(printed)
                rt = type(again) is type(ins) and str(again) == printed and again.stack_pop_size == ins.stack_pop_size and again.stack_push_size == ins.stack_push_size
            except Exception as e:  # pylint: disable=broad-except
                rt = False
                printed += f" (raised {type(e).__name__})"
            row(f"roundtrip:{op}", rt, f"printed form {printed!r} of {line!r} does not parse back to an identical instruction", line)
    for f in avmspec.TXN_FIELDS:
        line = f"txna {f} 1" if f in avmspec.ARRAY_TXN_FIELDS else f"txn {f}"
        try:
            ins = _pl(line)
            ok = type(ins.field).__name__ == f and str(ins) == line
            if f in avmspec.ARRAY_TXN_FIELDS:
                ok = ok and ins.field.idx == 1
            g = _pl(f"gtxna 3 {f} 2" if f in avmspec.ARRAY_TXN_FIELDS else f"gtxn 3 {f}")
            ok = ok and type(g.field).__name__ == f and g.idx == 3
        except Exception as e:  # pylint: disable=broad-except
            ok = False
            line += f" (raised {type(e).__name__}: {e})"
        row(f"field:txn:{f}", ok, f"{line!r}: field parsed wrongly", line)
    for kind, op, names in (("global", "global", list(avmspec.GLOBAL_FIELDS)), ("asset_holding", "asset_holding_get", avmspec.ASSET_HOLDING_FIELDS),
                            ("asset_params", "asset_params_get", avmspec.ASSET_PARAMS_FIELDS), ("app_params", "app_params_get", avmspec.APP_PARAMS_FIELDS),
                            ("acct_params", "acct_params_get", avmspec.ACCT_PARAMS_FIELDS)):
        for f in names:
            line = f"{op} {f}"
            try:
                ins = _pl(line)
                ok = type(ins.field).__name__ == f and str(ins) == line
            except Exception as e:  # pylint: disable=broad-except
                ok = False
                line += f" (raised {type(e).__name__}: {e})"
            row(f"field:{kind}:{f}", ok, f"{line!r}: field parsed wrongly", line)
    for line, val in (("byte base64 AAEC", "0x000102"), ("byte b64 AAEC", "0x000102"), ("byte base64(AAEC)", "0x000102"), ("byte b64(AAEC)", "0x000102"),
                      ("byte base32 AAAQE", "0x000102"), ("byte b32 AAAQE", "0x000102"), ("byte base32(AAAQE)", "0x000102"), ("byte b32(AAAQE)", "0x000102"),
                      ("pushbytes base64 AAEC", "0x000102"), ("byte 0xdeadbeef", "0xdeadbeef")):
        try:
            ins = _pl(line)
            ok = ins.value == val
        except Exception as e:  # pylint: disable=broad-except
            ok = False
            line += f" (raised {type(e).__name__}: {e})"
        row(f"bytes:{line.split()[1]}", ok, f"{line!r} does not denote {val}", line)
    return out


def run(ctx: Ctx) -> int:
    from tealer.teal.instructions import parse_instruction as PI
    from tealer.teal.instructions import parse_transaction_field as PTF
    from tealer.teal.instructions import parse_global_field as PGF
    from tealer.teal import parse_teal as PT

    return kprop.run_k(
        ctx, "C16", [gen_parse, (gen_imm, r"^k_immrt_|^k_imm_unlisted_|^k_immfx_Replace_none$", {"which": "rt"})],
        "bounded symbolic execution (CrossHair/z3) of the real parse_line / _parse_int / first_pass on lines built from symbolic characters: decimal (<= 4 digits), hex (<= 2 quick / "
        "3 thorough digits) and octal (<= 3 digits) integer literals give the value the assembler computes; named constants; index immediates of gtxn/load/dig/intc/cover/popn; "
        "0-2 leading blanks or tabs, 0-2 trailing blanks and an optional trailing comment do not change the instruction; hex byte literals (1-2 bytes) and quoted strings of <= 3 "
        "symbolic characters drawn from {a, space, /, //, escaped quote, :} are kept verbatim with the trailing comment split off; unknown opcodes become UnsupportedInstruction with "
        "the verbatim line; recorded line numbers with 0-2 blank / comment lines around; for every instruction class with integer immediates (read from the live module, pseudo-ops "
        "such as `replace [s]` included) the print / parse round trip on the boundary values of the immediate (0, 1, 2, 7, 8, 9, 10, 100, 255; pairs over 0, 1, 9, 255). The finite part - dispatch of every opcode of the independent AVM table (prefix pairs "
        "included), every field name, print/parse round trip, base64/base32 forms - is enumerated completely and has no symbolic dimension",
        [lambda: PI.parse_line, lambda: PI._parse_int, lambda: PI._split_instruction_into_tokens, lambda: PI._parse_byte_arguments, lambda: PTF.parse_transaction_field, lambda: PGF.parse_global_field, lambda: PT.first_pass],
        {"decimal_digits": 4, "hex_digits": "2/3", "octal_digits": 3, "quoted_chars": 3, "blanks": "0..2"},
        ["base64/base32 decoding happens in C (CrossHair realises the input): only fixed examples; literals longer than the digit bounds and 20-digit integers are outside"],
        timeout_quick=150, timeout_thorough=600, extra_results=table_check(),
    )


def replay(payload: Dict[str, Any]) -> int:
    print("K replay:", payload.get("harness"), payload.get("call"))
    return 0
