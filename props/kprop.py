"""Generic driver for properties decided by engine K alone."""
from __future__ import annotations

from typing import Any, Callable, Dict, List, Optional

from props import common
from props.common import Ctx, Outcome, VERIF
from vlib import chrunner
from vlib.tealerio import source_sha, tree_sha


def run_k(ctx: Ctx, prop: str, modules: List[Any], explanation: str, functions: List[Any], bounds: Dict[str, Any], assumptions: List[str],
          timeout_quick: int = 90, timeout_thorough: int = 300, extra_results: Optional[List[Any]] = None, level: str = "other",
          s_family: Optional[Any] = None) -> int:
    outcome = Outcome()
    scov: Dict[str, Any] = {}
    if s_family is not None:
        from props import sdriver

        check_id, programs = s_family
        scov = sdriver.run_family(ctx, check_id, programs, outcome)
    allres: List[Any] = []
    counts: Dict[str, int] = {}
    for entry in modules:
        gen, only, kwargs = (entry if isinstance(entry, tuple) else (entry, None, {}))
        text = gen.generate(VERIF, ctx.tier, **kwargs)
        modname = f"k_{prop.lower()}_{gen.__name__.split('.')[-1]}_{ctx.tier}"
        names = None
        if only is not None:
            import re as _re
            names = [n for n in _re.findall(r"^def (k_\w+)\(", text, _re.M) if _re.search(only, n)]
        res = chrunner.run_module(text, modname, timeout=timeout_quick if ctx.quick else timeout_thorough, only=names)
        c = common.k_results_to_outcome(ctx, res, outcome, modname)
        common.merge_counts(counts, c)
        allres += list(res)
    if extra_results:
        c = common.k_results_to_outcome(ctx, extra_results, outcome, f"k_{prop.lower()}_table")
        common.merge_counts(counts, c)
        allres += list(extra_results)
    ev = {
        "property_id": prop,
        "level": level,
        "coverage": {
            "explanation": explanation,
            "evaluations": counts.get("obligations", 0) + scov.get("programs", 0),
            "distinct_nontrivial": counts.get("confirmed", 0) + scov.get("nontrivial_programs", 0),
            "s_family": {k: v for k, v in scov.items() if k != "samples"},
            "s_samples": scov.get("samples", [])[:3],
            "obligations": counts.get("obligations", 0),
            "discharged": counts.get("confirmed", 0),
            "k_obligations": counts,
            "rule": "one obligation per generated harness (operator / operand order / field / opcode are harness parameters, integer immediates are symbolic); non-trivial = "
                    "confirmed over all paths and its reachability twin is refuted",
            "samples": [{"harness": r.name, "verdict": r.verdict, "seconds": round(r.seconds, 1), "meta": r.meta, "detail": r.detail[:100]} for r in allres[:8]],
            "functions_encoded": source_sha(functions),
            "bounds": dict(bounds, crosshair_timeout_s=timeout_quick if ctx.quick else timeout_thorough),
            "tealer_tree": tree_sha(),
            "exhaustive": False,
        },
        "assumptions": assumptions,
    }
    return common.finish(ctx, outcome, ev)
