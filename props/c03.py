"""C03 - no report when every accepting path directly excludes the dangerous value."""
from __future__ import annotations

from typing import Any, Dict, List, Tuple

from harness import gen_trees
from props import common, detfam, families, sdriver
from props.common import Ctx, Outcome, VERIF
from vlib import chrunner, scheck


def check(src: str, spec: Dict[str, Any]) -> Tuple[List[Any], Any]:
    return scheck.check_must_not_report(src, "C03", unroll=spec.get("unroll", 2))


sdriver.CHECKS["c03"] = check


def run(ctx: Ctx) -> int:
    outcome = Outcome()
    # K: the &&, ||, ! combinators of `_get_asserted` return exactly the semantic true/false sets (one symbolic constant,
    # the other from the alphabet, optional unknown leaf)
    kres = chrunner.run_module(gen_trees.generate(VERIF, ctx.tier), f"k_c03_{ctx.tier}", timeout=400 if ctx.quick else 900)
    kcounts = common.k_results_to_outcome(ctx, kres, outcome, "k_c03")
    cov = sdriver.run_family(ctx, "c03", detfam.family(ctx, quick_cap=800), outcome)
    from tealer.detectors import utils as du
    from tealer.analyses.dataflow.transaction_context.generic import DataflowTransactionContext as D

    ev = families.s_evidence(
        "C03", "translation_validation", cov, kcounts, kres,
        "same family as C01; per program, detector and governed field one direct-check (FREE) exploration: comparisons of the field read in the same block against a "
        "same-block constant are interpreted by z3, every other condition is a fresh value; two-field detectors are projected per field and combined per block trace; "
        "if no accepting path carries the dangerous value, real run_detectors() must report nothing; non-trivial = the detector reported at least one path",
        [lambda: du.detect_missing_tx_field_validations, lambda: du.validated_in_block, lambda: D._block_level_constraints, lambda: D._path_level_constraints, lambda: D._calculate_reachin, lambda: D._calculate_livein],
        {"unroll": 2, "call_depth": 3, "detectors": 9},
        ["FREE reading is deliberately weaker than the AVM semantics (it may only admit more executions), so this obligation can never demand more precision than the property states"],
    )
    return common.finish(ctx, outcome, ev)


def replay(payload: Dict[str, Any]) -> int:
    return families.replay_s(payload, check)
