"""C02 - every reported path is a genuine, unvalidated accepting path (engine G + S/FREE)."""
from __future__ import annotations

from typing import Any, Dict, List, Tuple

from props import common, detfam, families, sdriver
from props.common import Ctx, Outcome
from vlib import ctlgen, gcheck, tealgen as tg, tealsem as ts, cfgsem


def check(src: str, spec: Dict[str, Any]) -> Tuple[List[Any], Any]:
    fs, st, info = gcheck.check_paths(src, "C02", unroll=spec.get("unroll", 2))
    st.extra = dict(info)
    return fs, st


sdriver.CHECKS["c02"] = check


def family(ctx: Ctx) -> List[Tuple[str, str, Dict[str, Any]]]:
    progs = detfam.family(ctx, quick_cap=600)
    # subroutine-heavy shapes: shared callee from 2-3 sites, nested calls, loops, recursion, callee that exits
    for name, src in ctlgen.callgraph_family(2, (3, 4), (ctx.seed, 64 if ctx.quick else 8)):
        p = ts.tokenize(src)
        if cfgsem.is_structured(p):
            progs.append(("cg/" + name, src, {}))
    return progs


def run(ctx: Ctx) -> int:
    outcome = Outcome()
    cov = sdriver.run_family(ctx, "c02", family(ctx), outcome)
    from tealer.detectors import utils as du
    from tealer.utils.output import ExecutionPaths

    c = cov.get("counters", {})
    ev = families.s_evidence(
        "C02", "model_checking", cov, {}, [],
        "programs = the detector family of C01/C03 plus call-graph shaped programs (shared callee from 2-3 sites, nested calls, calls in loops, recursion, callee that exits); "
        "per reported path one z3 query constrains a run of the control-flow semantics (symbolic call stack of return addresses and activation ids) to produce exactly the "
        "reported block sequence from pc 0 to a terminating instruction without repeating a block inside one activation; per block and detector field the direct-check "
        "exploration decides whether the dangerous value is excluded there; duplicates and the textual/JSON renderings are compared on the real objects (by-product, not solver-decided)",
        [lambda: du.detect_missing_tx_field_validations, lambda: du.validated_in_block, lambda: ExecutionPaths.to_json, lambda: ExecutionPaths._short_notation],
        {"unroll": 2, "call_depth": 3},
        ["'excluded at a block' is read at block level and per field (the weakest reading the sentence admits); blocks inside a subroutine (transitively) called from several sites use the call-site-insensitive path set"],
    )
    ev["coverage"]["states"] = max(1, int(c.get("reported_paths", 0)))
    ev["coverage"]["transitions"] = max(1, int(c.get("reported_paths", 0)))
    ev["coverage"]["traces_validated_against_impl"] = int(c.get("reported_paths", 0))
    return common.finish(ctx, outcome, ev)


def replay(payload: Dict[str, Any]) -> int:
    return families.replay_s(payload, check)
