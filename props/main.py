"""check <id> --tier quick|thorough | check <id> --replay <file>"""
from __future__ import annotations

import argparse
import importlib
import json
import os
import sys
import time

from props.common import Ctx


def main() -> int:
    ap = argparse.ArgumentParser()
    ap.add_argument("prop")
    ap.add_argument("--tier", default=os.environ.get("VERIF_TIER", "quick"), choices=["quick", "thorough"])
    ap.add_argument("--replay", default=None)
    args = ap.parse_args()
    prop = args.prop.upper()
    mod = importlib.import_module("props." + prop.lower())
    if args.replay:
        with open(args.replay) as f:
            payload = json.load(f)
        return int(mod.replay(payload))
    seed = int(os.environ.get("VERIF_SEED", "0") or 0)
    ctx = Ctx(prop, args.tier, seed, time.time())
    return int(mod.run(ctx))


if __name__ == "__main__":
    sys.exit(main())
