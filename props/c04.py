"""C04 - the CFG is well-formed and over-approximates real control flow (engine G)."""
from __future__ import annotations

from typing import Any, Dict, List, Tuple

from props import common, families, sdriver
from props.common import Ctx, Outcome
from vlib import ctlgen, gcheck, tealgen as tg


def check(src: str, spec: Dict[str, Any]) -> Tuple[List[Any], Any]:
    fs, st, info = gcheck.check_cfg(src, "C04")
    st.extra = {"states": info["states"], "transitions": info["transitions"], "blocks": info["blocks"]}
    return fs, st


sdriver.CHECKS["c04"] = check


def layouts(ctx: Ctx, with_lengths: Tuple[int, ...] = (3, 4)) -> List[Tuple[str, str, Dict[str, Any]]]:
    progs: List[Tuple[str, str, Dict[str, Any]]] = []
    for L in with_lengths:
        for name, src in ctlgen.valid_programs(L, 2):
            progs.append((f"L{L}/{name}", src, {}))
    five = [(f"L5/{n}", s, {}) for n, s in ctlgen.valid_programs(5, 3)]
    if ctx.quick:
        progs += tg.slice_of(five, ctx.seed, 16)
    else:
        progs += five
        six = ((f"L6/{n}", s, {}) for i, (n, s) in enumerate(ctlgen.valid_programs(6, 2)) if i % 4 == ctx.seed % 4)
        progs += list(six)
    return progs


def family(ctx: Ctx) -> List[Tuple[str, str, Dict[str, Any]]]:
    progs = layouts(ctx)
    at = tg.Atom(("global", "GroupSize"), "==", ("int", 2))
    for name, src in tg.layout_programs(at):
        progs.append(("hand/" + name, src, {}))
    for name, p in tg.shape_programs(3, [at], 1):
        try:
            progs.append(("shape/" + name, tg.emit(p), {}))
        except ValueError:
            pass
    for name, src in families.corpus_all():
        if families.in_fragment(src):
            progs.append(("corpus/" + name, src, {}))
    return progs


def run(ctx: Ctx) -> int:
    outcome = Outcome()
    cov = sdriver.run_family(ctx, "c04", family(ctx), outcome)
    from tealer.teal import parse_teal as PT

    c = cov.get("counters", {})
    ev = families.s_evidence(
        "C04", "model_checking", cov, {}, [],
        "programs = every sequence of <= 4 (quick; plus a seed-selected 1/16 of length 5) / <= 5 plus 1/4 of length 6 (thorough) slots over the control alphabet "
        "{plain, label, b, bz, bnz, callsub, retsub, return, err, switch} with <= 2-3 labels and every label target, filtered to assembler-valid structured programs; plus "
        "hand-written layouts, structured shapes and the whole repository corpus. Per program: (1) one-step induction - pc and the return address are solver variables over "
        "all reachable instructions / valid return addresses, the negated walk property must be unsat; (2) retained == reachable by z3's fixedpoint engine; (3) mirror/closure "
        "as relation equality over symbolic block ids; (4) bz/bnz successor order",
        [lambda: PT.create_bb, lambda: PT.first_pass, lambda: PT.second_pass, lambda: PT.fourth_pass, lambda: PT.identify_subroutine_blocks, lambda: PT.parse_teal],
        {"max_slots": 4 if ctx.quick else 6, "labels": 3},
        ["every branch outcome is possible (data ignored): the stepper over-approximates real executions",
         "programs are assembler-valid and structured (subroutine bodies entered only through callsub)"],
    )
    ev["coverage"]["states"] = max(1, int(c.get("states", 0)))
    ev["coverage"]["transitions"] = max(1, int(c.get("transitions", 0)))
    ev["coverage"]["traces_validated_against_impl"] = cov["programs"]
    return common.finish(ctx, outcome, ev)


def replay(payload: Dict[str, Any]) -> int:
    return families.replay_s(payload, check)
