"""C10 - cross-transaction (gtxn) contexts are sound for other group members."""
from __future__ import annotations

from typing import Any, Dict, List, Tuple

from harness import gen_index
from props import common, families, sdriver
from props.common import Ctx, Outcome, VERIF
from vlib import chrunner, scheck, tealgen as tg
from vlib.tealerio import Run

GI = ("txn", "GroupIndex")
GS = ("global", "GroupSize")


def check(src: str, spec: Dict[str, Any]) -> Tuple[List[Any], Any]:
    run = Run(src, detectors=[])
    return scheck.check_soundness(src, "C10", keys=("kinds", "fee", "RekeyTo", "CloseRemainderTo", "AssetCloseTo", "Sender"), gtxn=True,
                                  run=run, unroll=spec.get("unroll", 2))


sdriver.CHECKS["c10"] = check


def refs(field: str, quick: bool) -> List[Tuple]:
    out = [("gtxn", 0, field), ("gtxn", 1, field), ("gtxns_int", 1, field), ("gtxns_rel", 1, field), ("gtxns_rel", -1, field), ("gtxn", 15, field)]
    if not quick:
        out += [("gtxns_int", 0, field), ("gtxns_int", 15, field), ("gtxns_rel", 2, field), ("gtxns_rel", -2, field), ("gtxns_rel_sw", 1, field), ("gtxn", 2, field)]
    return out


def family(ctx: Ctx) -> List[Tuple[str, str, Dict[str, Any]]]:
    progs: List[Tuple[str, str, Dict[str, Any]]] = []
    q = ctx.quick
    atoms: List[Any] = []
    for r in refs("RekeyTo", q):
        atoms += tg.addr_atoms(r, (("zero",), ("addr", tg.A1)))
    for r in refs("Fee", q):
        atoms += tg.int_atoms(r, (1000, 272001), ("<=", ">", "=="))
    for r in refs("TypeEnum", q):
        atoms += [tg.Atom(r, op, ("named", n), o) for op in ("==", "!=") for n in ("pay", "appl") for o in ("fc", "cf")]
    for r in refs("OnCompletion", q)[:3]:
        atoms += [tg.Atom(r, op, ("named", "UpdateApplication")) for op in ("==", "!=")]
    for r in refs("Sender", q)[:3]:
        atoms += tg.addr_atoms(r, (("creator",),))
    idx_checks = [None, tg.Atom(GI, "==", ("int", 0)), tg.Atom(GI, "==", ("int", 1)), tg.Atom(GS, "==", ("int", 2)), tg.Atom(GI, "!=", ("int", 1)), tg.Atom(GI, "<", ("int", 2)),
                  tg.Atom(GS, "<=", ("int", 3)), tg.Atom(GS, "==", ("int", 16))]
    if q:
        idx_checks = idx_checks[:4]
    n = 0
    for a in atoms:
        for how in ("assert", "bz_reject") if q else ("assert", "bz_reject", "bnz_ok", "return"):
            for ic in idx_checks:
                n += 1
                pre = () if ic is None else (tg.Check(ic, "assert"),)
                main = pre + (tg.Check(a, how),) + (() if how == "return" else (tg.Exit("approve"),))
                progs.append((f"a/{n}", tg.emit(tg.Program(main)), {}))
    # up to three members read by one program; the check placed in different blocks / a subroutine
    trip = [tg.Atom(("gtxn", 0, "RekeyTo"), "==", ("zero",)), tg.Atom(("gtxns_rel", 1, "Fee"), "<=", ("int", 1000)), tg.Atom(("txn", "TypeEnum"), "==", ("named", "pay")),
            tg.Atom(("gtxn", 1, "TypeEnum"), "==", ("named", "appl"), "cf"), tg.Atom(("gtxns_rel", -1, "RekeyTo"), "==", ("addr", tg.A1))]
    for i, a in enumerate(trip):
        for j, b in enumerate(trip):
            if i == j:
                continue
            for k, c in enumerate((tg.Atom(GI, "==", ("int", 1)), tg.Atom(GI, ">", ("int", 0)), tg.Opaque(2))):
                progs.append((f"t/{i}{j}{k}", tg.emit(tg.Program((tg.Check(c, "assert"), tg.Check(a, "bz_reject"), tg.If(tg.Opaque(1), (tg.Check(b, "assert"),), (), "bz"), tg.Exit("approve")))), {}))
                progs.append((f"ts/{i}{j}{k}", tg.emit(tg.Program((tg.Check(c, "assert"), tg.Call("s1"), tg.Check(b, "assert"), tg.Exit("approve")), {"s1": (tg.Check(a, "assert"),)})), {}))
    for k, a in enumerate((trip[0], trip[1], trip[3])):
        for name, src in tg.layout_programs(a, tg.Atom(GI, "==", ("int", 1))):
            progs.append((f"e/{name}/{k}", src, {}))
    shape_atoms = [trip[0], trip[1]]
    extra = []
    for name, p in tg.shape_programs(3, shape_atoms, 1):
        try:
            extra.append(("d/" + name, tg.emit(p), {}))
        except ValueError:
            pass
    progs += tg.slice_of(extra, ctx.seed, 4) if q else extra
    for name, src in families.corpus():
        if "gtxn" in src:
            progs.append(("h/" + name, src, {}))
    return progs


def run(ctx: Ctx) -> int:
    outcome = Outcome()
    text = gen_index.generate(VERIF, ctx.tier)
    kres = chrunner.run_module(text, f"k_c10_{ctx.tier}", timeout=120 if ctx.quick else 300)
    kcounts = common.k_results_to_outcome(ctx, kres, outcome, "k_c10")
    cov = sdriver.run_family(ctx, "c10", family(ctx), outcome)
    from tealer.analyses.dataflow.transaction_context.utils import group_helpers as GH, key_helpers as KH
    from tealer.analyses.dataflow.transaction_context.generic import DataflowTransactionContext as D

    ev = families.s_evidence(
        "C10", "translation_validation", cov, kcounts, kres,
        "programs read up to three group members through `gtxn i f`, `int i; gtxns f`, `txn GroupIndex; int k; +/-; gtxns f` (i in {0,1,15}, k in {+-1,+-2}) for RekeyTo, Fee, "
        "TypeEnum, OnCompletion, Sender, combined with GroupIndex / GroupSize checks, in one block, across blocks and in a subroutine; all 16 slots' fields, the group size "
        "and the own index are solver variables; every non-default gtxn_context(i) / absolute_context(i) / relative_context(k) of every block on an accepting path is "
        "validated; K: index classification and key matching for symbolic indices and offsets",
        [lambda: GH._get_index, lambda: GH.get_index_and_field, lambda: KH.is_value_matches_key, lambda: KH.get_relative_index_key, lambda: KH.get_ind_base_for_gtxn_type_keys, lambda: D._update_gtxn_constraints],
        {"unroll": 2, "call_depth": 3, "slots": 16},
        ["well-formed transactions in every slot", "'empty when i is impossible' is read against tealer's own listed group indices"],
    )
    return common.finish(ctx, outcome, ev)


def replay(payload: Dict[str, Any]) -> int:
    return families.replay_s(payload, check)
