"""C15 (narrow claim) - verdicts are invariant under re-spelling of constants."""
from __future__ import annotations

from typing import Any, Dict

from harness import gen_parse, gen_spelling, gen_txn_types
from props import kprop
from props.common import Ctx


def run(ctx: Ctx) -> int:
    from tealer.utils import analyses as UA
    from tealer.teal.instructions import parse_instruction as PI
    from tealer.analyses.dataflow.transaction_context.txn_types import TxnType

    return kprop.run_k(
        ctx, "C15",
        [gen_spelling, (gen_parse, r"k_spelling_equal|k_int_named|k_int_decimal|k_int_hex|k_int_octal", {}), (gen_txn_types, r"^k_kind_named_.*_(all|appl)$", {})],
        "narrow claim, decided by bounded symbolic execution (CrossHair/z3): for all uint64 constants c the comparison kernels of GroupSize, Fee and the transaction kinds return "
        "identical true/false results whether c is pushed by `int`, `pushint`, `intc i` or `intc_i` (entry-block constant block); is_int_push_ins evaluates all four to c; every "
        "named TypeEnum / OnCompletion constant gives the same sets as its number; decimal, hex and octal spellings of every value 0..255 parse to the same constant through the "
        "real parse_line. Outside the technique (stated in DESIGN.md): label renaming, comments, blank lines, padding and moving subroutines are relations between two texts - "
        "comparing two concrete runs is differential testing, not solver-based checking",
        [UA.is_int_push_ins, PI._parse_int, TxnType._get_asserted_transaction_types],
        {"constants": "all uint64 (kernels); 0..255 (spellings through parse_line)"},
        ["intcblock is in the entry block and unique (the documented condition under which tealer evaluates intc)"],
        timeout_quick=150, timeout_thorough=400,
    )


def replay(payload: Dict[str, Any]) -> int:
    print("K replay:", payload.get("harness"), payload.get("call"))
    return 0
