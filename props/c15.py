"""C15 (narrow claim) - verdicts are invariant under re-spelling of constants."""
from __future__ import annotations

from typing import Any, Dict

from typing import List, Tuple

from harness import gen_parse, gen_spelling, gen_txn_types
from props import c06, detfam, families, kprop, sdriver
from props.common import Ctx
from vlib import scheck, tealgen as tg


def check(src: str, spec: Dict[str, Any]) -> Tuple[List[Any], Any]:
    """A rewritten program is validated against the semantics on its own: sets exact (C06 reading), detector verdicts decided both ways (C01/C03 readings)."""
    if spec.get("mode") == "sets":
        fs, st = c06.check(src, spec)
    else:
        f1, st = scheck.check_must_report(src, "C15", unroll=2)
        if st.skipped:
            return f1, st
        f2, s2 = scheck.check_must_not_report(src, "C15", unroll=2)
        fs, st = f1 + f2, families.merge_stats(st, s2)
    for f in fs:
        f.prop = "C15"
        f.what = "rewritten program (comments / blank lines / indentation / renamed labels / re-spelled integers): " + f.what
    return fs, st


sdriver.CHECKS["c15"] = check


def family(ctx: Ctx) -> List[Tuple[str, str, Dict[str, Any]]]:
    out: List[Tuple[str, str, Dict[str, Any]]] = []
    step = 10 if ctx.quick else 3
    sets = [x for x in c06.family(ctx) if x[0].startswith(("a/", "b/", "d/", "e/", "g/"))]
    for i, (name, src, spec) in enumerate(sets):
        if i % step == ctx.seed % step:
            out.append((f"sets/{name}/n{i % 5}", tg.noisy(src, i % 5 + 1), dict(spec, mode="sets")))
    dets = [x for x in detfam.family(ctx, quick_cap=200) if x[0].startswith(("a/", "b/", "d/", "e/", "g/", "gs/"))]
    for i, (name, src, spec) in enumerate(dets):
        if i % step == ctx.seed % step:
            out.append((f"det/{name}/n{i % 5}", tg.noisy(src, i % 5 + 1), dict(spec, mode="det")))
    return out


def run(ctx: Ctx) -> int:
    from tealer.utils import analyses as UA
    from tealer.teal.instructions import parse_instruction as PI
    from tealer.analyses.dataflow.transaction_context.txn_types import TxnType

    return kprop.run_k(
        ctx, "C15",
        [gen_spelling, (gen_parse, r"k_spelling_equal|k_int_named|k_int_decimal|k_int_hex|k_int_octal", {}), (gen_txn_types, r"^k_kind_named_.*_(all|appl)$", {})],
        "narrow claim, decided by bounded symbolic execution (CrossHair/z3): for all uint64 constants c the comparison kernels of GroupSize, Fee and the transaction kinds return "
        "identical true/false results whether c is pushed by `int`, `pushint`, `intc i` or `intc_i` (entry-block constant block); is_int_push_ins evaluates all four to c; every "
        "named TypeEnum / OnCompletion constant gives the same sets as its number; decimal, hex and octal spellings of every value 0..255 parse to the same constant through the "
        "real parse_line. Textual rewrites (comments, blank lines, indentation, trailing comments, renamed labels, hex/octal re-spelling of integers; moved subroutines and "
        "padding are part of the base families) are covered without comparing two runs: every rewritten variant of a slice of the C06 and detector families is validated by z3 "
        "against the semantics on its own (exact GroupSize/GroupIndex sets, detector verdict decided both ways), so on the fragment where these are exact two spellings agree "
        "because both equal the semantic value. A direct comparison of two concrete runs would be differential testing and is not done",
        [lambda: UA.is_int_push_ins, lambda: PI._parse_int, lambda: TxnType._get_asserted_transaction_types],
        {"constants": "all uint64 (kernels); 0..255 (spellings through parse_line)"},
        ["intcblock is in the entry block and unique (the documented condition under which tealer evaluates intc)"],
        timeout_quick=150, timeout_thorough=400,
        s_family=("c15", family(ctx)),
    )


def replay(payload: Dict[str, Any]) -> int:
    print("K replay:", payload.get("harness"), payload.get("call"))
    return 0
