"""C19 - version, mode and cost reporting agree with the AVM specification."""
from __future__ import annotations

from typing import Any, Dict

from harness import gen_version
from props import kprop
from props.common import Ctx
from vlib import avmspec


def run(ctx: Ctx) -> int:
    from tealer.teal import parse_teal as PT
    from tealer.teal.basic_blocks import BasicBlock
    from tealer.teal.instructions import instructions as I

    cross = avmspec.pyteal_crosscheck()
    return kprop.run_k(
        ctx, "C19", [gen_version],
        "bounded symbolic execution (CrossHair/z3) of the real _verify_version with the declared version symbolic over 1..8, one obligation per opcode of TEAL v1-v8 (" +
        f"{len(avmspec.OPS) - 1}), per transaction field ({len(avmspec.TXN_FIELDS)}) and per global field ({len(avmspec.GLOBAL_FIELDS)}): flagged <=> version < introduction version of the "
        "opcode or of its field, against an independent AVM table (cross-checked on this run with pyteal: " + f"{cross.get('agree')} opcodes agree, {len(cross.get('disagree', []))} disagree); "
        "the instruction's mode equals the table's; _detect_execution_mode on 1-4 instructions with symbolic modes (first mode-specific one, mixture <=> error); contract type "
        "follows the mode; absent pragma => version 1; cost of every cost-relevant opcode for every declared version >= its introduction; cost of a block of <= 3 instructions "
        "chosen by symbolic indices equals the sum; whole parse_teal on programs in which a solver-chosen instruction (10 snippets: mode-specific, newer opcode, newer field) stands in live code, "
        "after `return`, in a never-called subroutine or behind `b` (x 3 live prefixes x versions 2..8): the flagged lines, the mode and the mixture message are those of the whole text - "
        "the AVM checks every opcode, reachable or not",
        [lambda: PT._verify_version, lambda: PT._detect_execution_mode, lambda: PT.parse_teal, lambda: BasicBlock.cost.fget, lambda: I.Sha256.cost.fget, lambda: I.Ecdsa_pk_decompress.cost.fget],
        {"versions": "1..8", "block_len": "1..3"},
        ["the independent AVM table (vlib/avmspec.py); `method` (pseudo-op) and size-dependent costs (base64_decode, json_ref) are left out of the claim",
         "field-level modes (e.g. `global Round` is application-only) are not instruction-level and are outside the claim"],
        timeout_quick=300, timeout_thorough=600,
    )


def replay(payload: Dict[str, Any]) -> int:
    print("K replay:", payload.get("harness"), payload.get("call"))
    return 0
