"""C06 - per-block GroupSize / GroupIndex sets are sound and exact.

K: comparison kernels for all uint64 constants (CrossHair on the real `_get_asserted*`).
S: EXACT soundness on every accepting path + FREE exactness per block, per program of the family.
"""
from __future__ import annotations

import json
from typing import Any, Dict, List, Tuple

from harness import gen_int_fields
from props import common, sdriver, families
from props.common import Ctx, Outcome, VERIF
from vlib import chrunner, scheck, tealgen as tg
from vlib.tealerio import Run, source_sha, tree_sha

GS = ("global", "GroupSize")
GI = ("txn", "GroupIndex")


def check(src: str, spec: Dict[str, Any]) -> Tuple[List[Any], Any]:
    run = Run(src, detectors=[])
    f1, s1 = scheck.check_soundness(src, "C06", keys=("gs", "gi"), run=run, unroll=spec.get("unroll", 2))
    if s1.skipped:
        return f1, s1
    f2, s2 = scheck.check_exact_int(src, "C06", run=run, unroll=spec.get("unroll", 2))
    s1.paths += s2.paths
    s1.accepting += s2.accepting
    s1.cut += s2.cut
    for k in s1.queries:
        s1.queries[k] += s2.queries[k]
    s1.solver_s += s2.solver_s
    s1.nontrivial = s1.nontrivial or s2.nontrivial
    return f1 + f2, s1


sdriver.CHECKS["c06"] = check


def family(ctx: Ctx) -> List[Tuple[str, str, Dict[str, Any]]]:
    progs: List[Tuple[str, str, Dict[str, Any]]] = []

    def add(name: str, p: Any, spec: Dict[str, Any] = None) -> None:  # type: ignore[assignment]
        src = p if isinstance(p, str) else tg.emit(p)
        progs.append((name, src, spec or {}))

    # (a) exhaustive one-atom core: every cut position 0..17, six operators, both operand orders
    atoms = tg.int_atoms(GS, tg.GS_CONSTS_FULL) + tg.int_atoms(GI, tg.GS_CONSTS_FULL)
    for name, p in tg.one_check_programs(atoms):
        add("a/" + name, p)
    # (b) condition trees around one atom
    small = tg.int_atoms(GS, (1, 2, 16)) + tg.int_atoms(GI, (0, 1, 15))
    for i, a in enumerate(small):
        for j, cv in enumerate(tg.cond_variants(a, 2)[2:]):
            for how in ("assert", "bz_reject") if ctx.quick else ("assert", "bz_reject", "bnz_ok", "return"):
                main = (tg.Check(cv, how),) + (() if how == "return" else (tg.Exit("approve"),))
                add(f"b/{i}-{j}-{how}", tg.Program(main))
    # (c) constant spellings
    for ref in (GS, GI):
        for c in (2, 16):
            for op in ("==", "<"):
                for o in ("fc", "cf"):
                    for sp in ("pushint", "intc", "hex", "oct", "intcd"):
                        add(f"c/{ref[1]}-{c}-{op}-{o}-{sp}", tg.Program((tg.Check(tg.Atom(ref, op, (sp, c), o), "assert"), tg.Exit("approve"))))
    # (d) all shapes
    shape_atoms = [tg.Atom(GS, ">=", ("int", 2)), tg.Atom(GI, "!=", ("int", 0), "cf")]
    if not ctx.quick:
        shape_atoms += [tg.Atom(GS, "==", ("int", 16)), tg.Atom(GI, "<", ("int", 2))]
    for name, p in tg.shape_programs(3, shape_atoms, 1):
        add("d/" + name, p)
    # (e) layouts
    for a in (tg.Atom(GS, "==", ("int", 2)), tg.Atom(GI, "<=", ("int", 1)), tg.Atom(GS, "!=", ("int", 16), "cf"), tg.Atom(GI, ">", ("int", 0))):
        for name, src in tg.layout_programs(a):
            add(f"e/{name}/{a.ref[1]}{a.op}", src)
    # (g) both fields on one path (the coupling clause)
    for a in tg.int_atoms(GS, (1, 2, 16), ("==", "<=", ">")):
        for b in tg.int_atoms(GI, (0, 1, 15), ("==", "<", ">=")):
            add(f"g/{a.op}{a.const[1]}{a.order}-{b.op}{b.const[1]}{b.order}", tg.Program((tg.Check(a, "assert"), tg.Check(b, "bz_reject"), tg.Exit("approve"))))
    # (n) meaning-preserving textual noise (comments, blank lines, indentation, renamed labels, hex/octal spellings):
    #     each noisy variant is validated against the semantics on its own (C15's rewrites, decided by the solver)
    base = list(progs)
    for idx, (name, src, spec) in enumerate(base):
        if idx % (12 if ctx.quick else 4) == ctx.seed % (12 if ctx.quick else 4) and not name.startswith("c/"):
            add("n/" + name, tg.noisy(src, idx % 7), spec)
    # (h) repository corpus
    for name, src in families.corpus():
        add("h/" + name, src)
    # (f) thorough family, of which the quick tier sees a seed-selected 1/16 slice
    extra: List[Tuple[str, str, Dict[str, Any]]] = []
    for name, p in tg.shape_programs(4, shape_atoms[:2], 1):
        extra.append(("f/" + name, tg.emit(p), {}))
    for name, p in tg.shape_programs(3, shape_atoms[:2], 2, with_subs=True):
        extra.append(("f2/" + name, tg.emit(p), {}))
    if ctx.quick:
        extra = tg.slice_of(extra, ctx.seed, 16)
        # keep the quick tier inside its budget
        extra = extra[:2500]
    else:
        # unrolling 3 on a slice: the K=2 completeness argument of the direct-check reading is checked, not assumed
        for name, src, _ in tg.slice_of(progs, 3, 16):
            extra.append((name + "/k3", src, {"unroll": 3}))
    return progs + extra


def run(ctx: Ctx) -> int:
    outcome = Outcome()
    from props import selftest

    st_progs, st_paths, st_errors = selftest.run()
    outcome.harness_errors += ["encoder self-test: " + e for e in st_errors]
    text = gen_int_fields.generate(VERIF, ctx.tier)
    kres = chrunner.run_module(text, f"k_c06_{ctx.tier}", timeout=60 if ctx.quick else 120)
    kcounts = common.k_results_to_outcome(ctx, kres, outcome, "k_c06")
    programs = family(ctx)
    cov = sdriver.run_family(ctx, "c06", programs, outcome)
    from tealer.analyses.dataflow.transaction_context.int_fields import GroupIndices
    from tealer.analyses.dataflow.transaction_context.generic import DataflowTransactionContext

    evidence = {
        "property_id": "C06",
        "level": "translation_validation",
        "coverage": {
            **cov,
            "evaluations": cov["programs"] + kcounts["obligations"],
            "distinct_nontrivial": cov["nontrivial_programs"],
            "rule": "programs = bounded-exhaustive grammar family (one-atom core over all cut positions 0..17 x 6 ops x 2 operand orders; condition trees; "
                    "all shapes with <= 3 (quick) / 4 (thorough) statements; hand-written layouts; repo corpus); non-trivial = at least one non-default tealer claim was "
                    "checked against a feasible accepting path; every run-time input (group size, own index, all field values, branch outcomes) is a solver variable",
            "exhaustive": False,
            "k_obligations": kcounts,
            "k_samples": [{"harness": r.name, "verdict": r.verdict, "seconds": round(r.seconds, 1), "meta": r.meta} for r in kres[:6]],
            "functions_encoded": source_sha([lambda: GroupIndices._get_asserted_int_values, lambda: GroupIndices._get_asserted_groupsizes,
                                             lambda: GroupIndices._get_asserted_groupindices, lambda: GroupIndices._store_results,
                                             lambda: DataflowTransactionContext._get_asserted, lambda: DataflowTransactionContext.run_analysis]),
            "bounds": {"unroll": 2, "call_depth": 3, "fuel": 400, "group_size": "1..16 (symbolic)", "constants": "K: all uint64; S: alphabet 0..17",
                       "crosshair_timeout_s": 60 if ctx.quick else 120},
            "tealer_tree": tree_sha(),
        },
        "assumptions": [
            "engine S: transactions are well-formed (EXACT mode); values of unmodelled fields are unconstrained",
            "FREE mode: only comparisons of the field read in the same block against a same-block constant are interpreted; GroupSize and GroupIndex are decoupled except index < largest listed size",
            "blocks inside a subroutine (transitively) called from several sites may list values of another call site (C06's stated exception)",
            "constant-universality argument of DESIGN.md section 1 links the K lemmas (all constants, one function) to the S verdicts (alphabet, whole pipeline)",
        ],
    }
    evidence["coverage"]["encoder_selftest"] = {"programs": st_progs, "paths_replayed": st_paths, "mismatches": len(st_errors)}
    return common.finish(ctx, outcome, evidence)


def replay(payload: Dict[str, Any]) -> int:
    return families.replay_s(payload, check)
