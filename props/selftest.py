"""Encoder self-test: the symbolic and the concrete instance of the TEAL semantics replay each other.

For every terminal path the z3 executor finds (accepting or rejecting, EXACT mode) a model of the path
condition is extracted and run through the concrete instance: it must take the same block trace and
end with the same verdict.  A mismatch is a harness error (exit 3) - it would make `unsat` answers
untrustworthy.  Run at the start of the S-based checks on a fixed set of programs."""
from __future__ import annotations

from typing import Any, List, Tuple

from props import families
from vlib import symexec as sx
from vlib import tealgen as tg
from vlib import tealsem as ts


def programs() -> List[Tuple[str, str]]:
    out: List[Tuple[str, str]] = []
    for a in (tg.Atom(("global", "GroupSize"), "<=", ("int", 3)), tg.Atom(("txn", "Fee"), ">", ("int", 1000), "cf"), tg.Atom(("txn", "RekeyTo"), "==", ("zero",)),
              tg.Atom(("gtxns_rel", -1, "TypeEnum"), "==", ("named", "pay"))):
        out += [(f"layout/{n}", s) for n, s in tg.layout_programs(a)]
    out += [(n, s) for n, s in families.corpus(80)][:40]
    return out


def run() -> Tuple[int, int, List[str]]:
    errors: List[str] = []
    paths = 0
    progs = 0
    for name, src in programs():
        prog = ts.tokenize(src)
        progs += 1

        def on_any(dom: sx.Z3Dom, res: ts.PathResult, _st: Any, name: str = name, prog: ts.Prog = prog) -> None:
            nonlocal paths
            if res.cut:
                return
            if dom.check() != "sat":
                return
            paths += 1
            model = dom.extract_model()
            rep = sx.replay(prog, model, "EXACT")
            if rep.accepted != res.accepted or [e[0] for e in rep.trace] != [e[0] for e in res.trace]:
                errors.append(f"{name}: symbolic path {[prog.ins[e[0]].line for e in res.trace]} accepted={res.accepted} replays as "
                              f"{[prog.ins[e[0]].line for e in rep.trace]} accepted={rep.accepted} ({rep.fail_reason})")

        try:
            sx.explore(prog, "EXACT", None, 2, on_any=on_any)
        except ts.Unsupported:
            continue
    return progs, paths, errors
