"""C13 - group-configuration verdicts follow the group semantics."""
from __future__ import annotations

import itertools
from typing import Any, Dict, List, Optional, Tuple

from harness import gen_group
from props import common, families, sdriver
from props.common import Ctx, Outcome, VERIF
from vlib import chrunner, gcfg, tealgen as tg
from vlib.gcfg import GroupSpec, TxnSpec

H = "#pragma version 6\n"


def _p(*lines: str) -> str:
    return H + "\n".join(lines) + "\n"


APPROVE = ("int 1", "return")
LSIG: Dict[str, str] = {
    "nocheck": _p(*APPROVE),
    "rekey": _p("txn RekeyTo", "global ZeroAddress", "==", "assert", *APPROVE),
    "fee": _p("txn Fee", "int 1000", "<=", "assert", *APPROVE),
    "crt": _p("txn CloseRemainderTo", "global ZeroAddress", "==", "assert", *APPROVE),
    "typepay_crt": _p("txn TypeEnum", "int pay", "==", "txn CloseRemainderTo", "global ZeroAddress", "==", "&&", "assert", *APPROVE),
    "notpay": _p("txn TypeEnum", "int pay", "!=", "assert", *APPROVE),
    "next_rekey": _p("txn GroupIndex", "int 1", "+", "gtxns RekeyTo", "global ZeroAddress", "==", "assert", *APPROVE),
    "prev_rekey": _p("txn GroupIndex", "int 1", "-", "gtxns RekeyTo", "global ZeroAddress", "==", "assert", *APPROVE),
    "next_fee": _p("txn GroupIndex", "int 1", "+", "gtxns Fee", "int 2000", "<", "assert", *APPROVE),
    "abs0_rekey": _p("gtxn 0 RekeyTo", "global ZeroAddress", "==", "assert", *APPROVE),
    "abs1_rekey_fee": _p("gtxn 1 RekeyTo", "global ZeroAddress", "==", "assert", "gtxn 1 Fee", "int 1000", "<=", "assert", *APPROVE),
    "gi0_rekey_branch": _p("txn GroupIndex", "int 0", "==", "bz other", "txn RekeyTo", "global ZeroAddress", "==", "assert", "other:", *APPROVE),
    "rekey_or_opaque": _p("txn RekeyTo", "global ZeroAddress", "==", "txn Amount", "||", "assert", *APPROVE),
    "rekey_cf": _p("global ZeroAddress", "txn RekeyTo", "==", "bz no", *APPROVE, "no:", "err"),
}
APP: Dict[str, str] = {
    "nocheck": _p(*APPROVE),
    "noupdate": _p("txn OnCompletion", "int UpdateApplication", "!=", "assert", *APPROVE),
    "noupdel": _p("txn OnCompletion", "int UpdateApplication", "!=", "txn OnCompletion", "int DeleteApplication", "!=", "&&", "assert", *APPROVE),
    "creator_only": _p("txn Sender", "global CreatorAddress", "==", "assert", *APPROVE),
    "update_by_creator": _p("txn OnCompletion", "int UpdateApplication", "==", "bz ok", "txn Sender", "global CreatorAddress", "==", "assert", "ok:", *APPROVE),
    "checks_abs0_rekey": _p("gtxn 0 RekeyTo", "global ZeroAddress", "==", "assert", *APPROVE),
    "checks_prev_rekey_fee": _p("txn GroupIndex", "int 1", "-", "dup", "gtxns RekeyTo", "global ZeroAddress", "==", "assert", "gtxns Fee", "int 1000", "<=", "assert", *APPROVE),
    "checks_prev_rekey": _p("txn GroupIndex", "int 1", "-", "gtxns RekeyTo", "global ZeroAddress", "==", "assert", *APPROVE),
    "noop_only": _p("txn OnCompletion", "int NoOp", "==", "assert", *APPROVE),
}


def check(g_json: str, spec: Dict[str, Any]) -> Tuple[List[Any], Any]:
    g = spec["group"]
    return gcfg.check_group(g, "C13", via_yaml=spec.get("yaml", False))


sdriver.CHECKS["c13"] = check


def family(ctx: Ctx) -> List[Tuple[str, str, Dict[str, Any]]]:
    out: List[Tuple[str, str, Dict[str, Any]]] = []

    def add(name: str, g: GroupSpec, yaml: bool = False) -> None:
        out.append((name, str(g.to_json()), {"group": g, "yaml": yaml}))

    # groups of one transaction running one contract
    for ln, src in LSIG.items():
        for ty in ("pay", "txn", "axfer"):
            for ai in (None, 0):
                add(f"one/lsig-{ln}-{ty}-{ai}", GroupSpec({"c": (src, "LogicSig")}, [TxnSpec("T0", ty, logic_sig="c", absolute_index=ai)]))
    for an, src in APP.items():
        for ty in ("appl", "txn"):
            add(f"one/app-{an}-{ty}", GroupSpec({"c": (src, "ApprovalProgram")}, [TxnSpec("T0", ty, application="c")]))
    # a logic-sig transaction next to another logic-sig / application that may check it
    rel_variants = [("none", {}, {}), ("a+1", {"TB": 1}, {}), ("b-1", {}, {"TA": -1}), ("a-1", {"TB": -1}, {}), ("b+1", {}, {"TA": 1}), ("a+2", {"TB": 2}, {})]
    abs_variants = [(None, None), (0, 1), (1, 0), (0, None), (None, 1)]
    pair_l = ["nocheck", "rekey", "next_rekey", "prev_rekey", "next_fee", "abs0_rekey", "abs1_rekey_fee", "gi0_rekey_branch", "typepay_crt"]
    pair_r = ["nocheck", "rekey", "fee", "rekey_or_opaque"]
    combos = list(itertools.product(pair_l, pair_r, rel_variants, abs_variants))
    if ctx.quick:
        combos = [c for i, c in enumerate(combos) if i % 6 == ctx.seed % 6]
    for la, lb, (rn, ra, rb), (aa, ab) in combos:
        g = GroupSpec({"a": (LSIG[la], "LogicSig"), "b": (LSIG[lb], "LogicSig")},
                      [TxnSpec("TA", "pay", logic_sig="a", absolute_index=aa, relative_indexes=dict(ra)),
                       TxnSpec("TB", "pay", logic_sig="b", absolute_index=ab, relative_indexes=dict(rb))])
        add(f"two/{la}-{lb}-{rn}-{aa}{ab}", g, yaml=(len(la) + len(lb) + len(rn)) % 7 == 0)
        # the same configuration with the transactions listed in the other order (verdicts must not depend on it)
        add(f"two-rev/{la}-{lb}-{rn}-{aa}{ab}", GroupSpec(g.contracts, list(reversed(g.txns))))
    # pay (logic-sig) + application call that checks the payment
    apps = ["nocheck", "noupdate", "creator_only", "checks_abs0_rekey", "checks_prev_rekey_fee", "checks_prev_rekey", "update_by_creator", "noupdel", "noop_only"]
    combos2 = list(itertools.product(["nocheck", "fee", "crt"], apps, rel_variants[:5], [(None, None), (0, 1)]))
    if ctx.quick:
        combos2 = [c for i, c in enumerate(combos2) if i % 3 == ctx.seed % 3]
    for la, an, (rn, ra, rb), (aa, ab) in combos2:
        g = GroupSpec({"a": (LSIG[la], "LogicSig"), "app": (APP[an], "ApprovalProgram")},
                      [TxnSpec("TA", "pay", logic_sig="a", absolute_index=aa, relative_indexes=dict(ra)),
                       TxnSpec("TB", "appl", application="app", absolute_index=ab, relative_indexes=dict(rb))])
        add(f"payapp/{la}-{an}-{rn}-{aa}{ab}", g)
        add(f"payapp-rev/{la}-{an}-{rn}-{aa}{ab}", GroupSpec(g.contracts, list(reversed(g.txns))))
    # three transactions: T0 app checks T1 (prev) while T2 is unrelated; a transaction with both a logic-sig and an application
    trip = list(itertools.product(["nocheck", "rekey", "next_rekey"], ["nocheck", "prev_rekey"], ["checks_prev_rekey", "nocheck", "noupdate"], rel_variants[:4]))
    if ctx.quick:
        trip = trip[:: 4]
    for l0, l1, an, (rn, ra, rb) in trip:
        g = GroupSpec({"a": (LSIG[l0], "LogicSig"), "b": (LSIG[l1], "LogicSig"), "app": (APP[an], "ApprovalProgram")},
                      [TxnSpec("TA", "pay", logic_sig="a", relative_indexes=dict(ra)), TxnSpec("TB", "axfer", logic_sig="b", relative_indexes=dict(rb)),
                       TxnSpec("TC", "appl", application="app", logic_sig=None, relative_indexes={"TB": -1} if rn != "none" else {})])
        add(f"three/{l0}-{l1}-{an}-{rn}", g)
        add(f"three-rot/{l0}-{l1}-{an}-{rn}", GroupSpec(g.contracts, g.txns[1:] + g.txns[:1]))
    for ln in ("nocheck", "rekey"):
        for an in ("nocheck", "noupdate"):
            add(f"both/{ln}-{an}", GroupSpec({"l": (LSIG[ln], "LogicSig"), "a": (APP[an], "ApprovalProgram")}, [TxnSpec("T0", "appl", logic_sig="l", application="a")]))
    return out


def run(ctx: Ctx) -> int:
    outcome = Outcome()
    text = gen_group.generate(VERIF, ctx.tier)
    kres = chrunner.run_module(text, f"k_c13_{ctx.tier}", timeout=60 if ctx.quick else 150)
    kcounts = common.k_results_to_outcome(ctx, kres, outcome, "k_c13")
    cov = sdriver.run_family(ctx, "c13", family(ctx), outcome)
    from tealer.detectors import utils as du
    from tealer.utils.command_line import common as CC
    from tealer.execution_context import transactions as TX

    ev = families.s_evidence(
        "C13", "translation_validation", cov, kcounts, kres,
        "configurations = groups of 1-3 transactions over a pool of 14 logic-sigs and 9 applications (own checks, checks of the next / previous / absolute member), all "
        "placements of absolute indices and of relative offsets written on either side, transaction types; built as real GroupConfig objects (a slice through to_yaml / "
        "read_config_from_file) and run through init_tealer_from_config + run_detectors. Oracle: one symbolic group (size, slot of every configured transaction, all fields) "
        "in which every configured contract is executed symbolically at its own slot; sat(all approve and danger on t) => t must be reported; the direct-check reading of the "
        "own contract or of a member reading t through the configured index/offset => t must be cleared",
        [lambda: du.detect_missing_tx_field_validations_group_complete, lambda: du.contract_checks_its_field, lambda: du.contract_checks_txn_at_absolute_index, lambda: du.contract_checks_using_relative_index,
         lambda: CC.init_tealer_from_config, lambda: TX.fill_group_relative_indexes],
        {"transactions": "1..3", "unroll": 2},
        ["group-size-check is not group-aware in tealer (it returns execution paths) and is outside this check",
         "cleared direction uses directly declared offsets (either side) and configured absolute indices, not derived ones"],
    )
    return common.finish(ctx, outcome, ev)


def replay(payload: Dict[str, Any]) -> int:
    print("C13 replay: re-run the quick command; the stored payload contains the group description and the model")
    return 0
