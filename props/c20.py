"""C20 - the regex engine reports exactly the reachable occurrences (engine G)."""
from __future__ import annotations

from typing import Any, Dict, List, Tuple

from props import common, families, sdriver
from props.common import Ctx, Outcome
from vlib import ctlgen, gcheck, tealgen as tg, tealsem as ts


def check(src: str, spec: Dict[str, Any]) -> Tuple[List[Any], Any]:
    fs, st, info = gcheck.check_regex(src, "C20", max_len=spec.get("max_len", 2), max_patterns=spec.get("max_patterns", 40))
    st.extra = dict(info)
    return fs, st


sdriver.CHECKS["c20"] = check


def family(ctx: Ctx) -> List[Tuple[str, str, Dict[str, Any]]]:
    progs: List[Tuple[str, str, Dict[str, Any]]] = []
    spec = {"max_len": 2 if ctx.quick else 4, "max_patterns": 30 if ctx.quick else 80}
    for L in (3, 4):
        for i, (name, src) in enumerate(ctlgen.valid_programs(L, 2)):
            if ctx.quick and L == 4 and i % 2 != ctx.seed % 2:
                continue
            progs.append((f"L{L}/{name}", src, spec))
    five = [(f"L5/{n}", s, spec) for n, s in ctlgen.valid_programs(5, 3)]
    progs += tg.slice_of(five, ctx.seed, 32 if ctx.quick else 2)
    at = tg.Atom(("global", "GroupSize"), "==", ("int", 2))
    for name, src in tg.layout_programs(at):
        progs.append(("hand/" + name, src, {"max_len": 4, "max_patterns": 60}))
    # shared tails / joins / loops with 1-4 instruction patterns
    for name, p in tg.shape_programs(3, [at], 1):
        try:
            progs.append(("shape/" + name, tg.emit(p), {"max_len": 3, "max_patterns": 25}))
        except ValueError:
            pass
    if ctx.quick:
        progs = [x for x in progs if not x[0].startswith("shape/")] + tg.slice_of([x for x in progs if x[0].startswith("shape/")], ctx.seed, 4)
    for name, src in families.corpus_all():
        if families.in_fragment(src) and len(ts.tokenize(src).ins) <= 150:
            progs.append(("corpus/" + name, src, {"max_len": 2, "max_patterns": 12}))
    return progs


def run(ctx: Ctx) -> int:
    outcome = Outcome()
    cov = sdriver.run_family(ctx, "c20", family(ctx), outcome)
    from tealer.utils.regex import regex as R

    c = cov.get("counters", {})
    ev = families.s_evidence(
        "C20", "model_checking", cov, {}, [],
        "programs = control layouts (<= 4 slots, slice of 5), hand-written layouts, structured shapes (joins, loops, shared tails), small corpus contracts; per program every "
        "retained label and `*` x patterns of 1-4 instructions drawn from the program itself (straight-line chains, textually adjacent non-chains, overlapping, absent). "
        "Reachability label -> instruction and instruction -> match is decided by z3's fixedpoint engine for two edge relations (not crossing calls / union of both readings "
        "of a callsub); reported matches must lie between the two, `covered` between the corresponding path sets",
        [lambda: R.match_regex, lambda: R._find_instructions, lambda: R._is_match, lambda: R._is_equal, lambda: R.parse_regex, lambda: R._find_label],
        {"pattern_length": "1..2 quick, 1..4 thorough"},
        ["completeness is demanded only for occurrences reachable without crossing a call; matches reachable only through a call are counted (counters.only_through_call)",
         "pattern texts are taken verbatim from the program, so spelling normalisation of literals is not exercised here (C16)"],
    )
    ev["coverage"]["states"] = max(1, int(c.get("states", 0)))
    ev["coverage"]["transitions"] = max(1, int(c.get("transitions", 0)))
    ev["coverage"]["traces_validated_against_impl"] = int(c.get("regex_runs", 0))
    return common.finish(ctx, outcome, ev)


def replay(payload: Dict[str, Any]) -> int:
    return families.replay_s(payload, check)
