"""C07 - transaction-kind sets keep every approvable detector-relevant kind."""
from __future__ import annotations

from typing import Any, Dict, List, Tuple

from harness import gen_txn_types
from props import common, families, sdriver
from props.common import Ctx, Outcome, VERIF
from vlib import chrunner, scheck, tealgen as tg
from vlib.tealerio import Run


def check(src: str, spec: Dict[str, Any]) -> Tuple[List[Any], Any]:
    run = Run(src, detectors=[])
    return scheck.check_soundness(src, "C07", keys=("kinds",), run=run, unroll=spec.get("unroll", 2))


sdriver.CHECKS["c07"] = check


def family(ctx: Ctx) -> List[Tuple[str, str, Dict[str, Any]]]:
    full = tg.kind_atoms(out_of_range=True)
    small = [a for a in tg.kind_atoms(named=False) if a.const[1] in (1, 4, 5, 6, 0)]
    if ctx.quick:
        small = small[::3]
    T = lambda f: ("txn", f)  # noqa: E731
    shape_atoms = [tg.Atom(T("TypeEnum"), "==", ("named", "appl")), tg.Atom(T("OnCompletion"), "!=", ("named", "UpdateApplication"), "cf"),
                   tg.Atom(T("TypeEnum"), "!=", ("named", "pay")), tg.Atom(T("OnCompletion"), "==", ("int", 5))]
    layout_atoms = [tg.Atom(T("TypeEnum"), "==", ("named", "appl")), tg.Atom(T("OnCompletion"), "==", ("named", "DeleteApplication")),
                    tg.Atom(T("TypeEnum"), "!=", ("named", "axfer"), "cf"), tg.Bare(T("ApplicationID"))]
    pa = [tg.Atom(T("TypeEnum"), op, ("named", n)) for op in ("==", "!=") for n in ("pay", "axfer", "appl")]
    pb = [tg.Atom(T("OnCompletion"), op, ("named", n)) for op in ("==", "!=") for n in ("NoOp", "UpdateApplication", "DeleteApplication")]
    pb += [tg.Atom(T("ApplicationID"), op, ("int", 0)) for op in ("==", "!=")]
    progs = families.family_d(ctx.quick, ctx.seed, full, small, shape_atoms, layout_atoms, (pa, pb))
    # bare ApplicationID and its negation as branch conditions
    for how in ("assert", "bz_reject", "bnz_ok", "return"):
        for c in (tg.Bare(T("ApplicationID")), tg.Not(tg.Bare(T("ApplicationID")))):
            main = (tg.Check(c, how),) + (() if how == "return" else (tg.Exit("approve"),))
            progs.append((f"bare/{how}-{type(c).__name__}", tg.emit(tg.Program(main)), {}))
    return progs


def run(ctx: Ctx) -> int:
    outcome = Outcome()
    text = gen_txn_types.generate(VERIF, ctx.tier)
    kres = chrunner.run_module(text, f"k_c07_{ctx.tier}", timeout=60 if ctx.quick else 150)
    kcounts = common.k_results_to_outcome(ctx, kres, outcome, "k_c07")
    cov = sdriver.run_family(ctx, "c07", family(ctx), outcome)
    from tealer.analyses.dataflow.transaction_context.txn_types import TxnType
    from tealer.analyses.dataflow.transaction_context.generic import DataflowTransactionContext as D
    from tealer.utils import teal_enums

    ev = families.s_evidence(
        "C07", "translation_validation", cov, kcounts, kres,
        "programs = family D over TypeEnum / OnCompletion / ApplicationID checks (every named and numeric spelling incl. out-of-range constants, ==/!=, both operand "
        "orders, condition trees, pairs of checks, all shapes, layouts, repo corpus); the (TypeEnum, OnCompletion, ApplicationID) valuation of the governed transaction "
        "is a solver variable; non-trivial = a kind set smaller than the universe was validated on a feasible accepting path",
        [lambda: TxnType._get_asserted_transaction_types, lambda: D._get_asserted, lambda: D.run_analysis, lambda: teal_enums.transaction_type_to_tealer_type, lambda: teal_enums.oncompletion_to_tealer_type],
        {"unroll": 2, "call_depth": 3, "constants": "K: all uint64 constants x all well-formed valuations; S: enumeration values and 0/7/6",
         "crosshair_timeout_s": 60 if ctx.quick else 150},
        ["well-formed transactions: fields of another transaction type are zero; TypeEnum in 1..6",
         "assumption that only removes executions: an application creation call (ApplicationID = 0) has OnCompletion NoOp or OptIn"],
    )
    return common.finish(ctx, outcome, ev)


def replay(payload: Dict[str, Any]) -> int:
    return families.replay_s(payload, check)
