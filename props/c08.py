"""C08 - per-block address-field information admits every approvable address."""
from __future__ import annotations

from typing import Any, Dict, List, Tuple

from harness import gen_addr
from props import common, families, sdriver
from props.common import Ctx, Outcome, VERIF
from vlib import chrunner, scheck, tealgen as tg
from vlib.tealerio import Run

ADDR = ("RekeyTo", "CloseRemainderTo", "AssetCloseTo", "Sender")


def check(src: str, spec: Dict[str, Any]) -> Tuple[List[Any], Any]:
    run = Run(src, detectors=[])
    f1, s1 = scheck.check_soundness(src, "C08", keys=ADDR, run=run, unroll=spec.get("unroll", 2))
    if s1.skipped:
        return f1, s1
    f2, s2 = scheck.check_addr_free(src, "C08", run=run, unroll=spec.get("unroll", 2))
    return f1 + f2, families.merge_stats(s1, s2)


sdriver.CHECKS["c08"] = check


def family(ctx: Ctx) -> List[Tuple[str, str, Dict[str, Any]]]:
    T = lambda f: ("txn", f)  # noqa: E731
    full = []
    pseudo_zero = "AAAAAAAAAAAAAAAAAAAAAAAAAAAAAAAAAAAAAAAAAAAAEVAL4QAJS7JHB4"  # tealer's ZERO_ADDRESS constant: a non-zero address (KF-C08-zero-address-constant)
    for f in ADDR:
        full += tg.addr_atoms(T(f), (("zero",), ("addr", tg.A1), ("addr", tg.ZERO), ("creator",), ("addr", tg.A2)))
    full += tg.addr_atoms(T("RekeyTo"), (("addr", pseudo_zero),)) + tg.addr_atoms(T("CloseRemainderTo"), (("addr", pseudo_zero),))
    small = tg.addr_atoms(T("RekeyTo"), (("zero",), ("addr", tg.A1))) + tg.addr_atoms(T("Sender"), (("creator",), ("addr", tg.A2)))
    if ctx.quick:
        small = small[::2]
    shape_atoms = [tg.Atom(T("RekeyTo"), "==", ("zero",)), tg.Atom(T("Sender"), "==", ("creator",), "cf"),
                   tg.Atom(T("CloseRemainderTo"), "!=", ("addr", tg.A1)), tg.Atom(T("AssetCloseTo"), "==", ("addr", tg.A2))]
    layout_atoms = [tg.Atom(T("RekeyTo"), "==", ("zero",)), tg.Atom(T("Sender"), "==", ("addr", tg.A1), "cf"), tg.Atom(T("CloseRemainderTo"), "!=", ("zero",))]
    pa = tg.addr_atoms(T("RekeyTo"), (("zero",), ("addr", tg.A1)))
    pb = tg.addr_atoms(T("RekeyTo"), (("addr", tg.A2), ("creator",))) + tg.addr_atoms(T("CloseRemainderTo"), (("zero",),))
    return families.family_d(ctx.quick, ctx.seed, full, small, shape_atoms, layout_atoms, (pa, pb))


def run(ctx: Ctx) -> int:
    outcome = Outcome()
    text = gen_addr.generate(VERIF, ctx.tier)
    kres = chrunner.run_module(text, f"k_c08_{ctx.tier}", timeout=60 if ctx.quick else 150)
    kcounts = common.k_results_to_outcome(ctx, kres, outcome, "k_c08")
    cov = sdriver.run_family(ctx, "c08", family(ctx), outcome)
    from tealer.analyses.dataflow.transaction_context.addr_fields import AddrFields
    from tealer.analyses.dataflow.transaction_context.generic import DataflowTransactionContext as D

    ev = families.s_evidence(
        "C08", "translation_validation", cov, kcounts, kres,
        "programs = family D over RekeyTo / CloseRemainderTo / AssetCloseTo / Sender compared (==, !=, both operand orders) with global ZeroAddress, addr literals "
        "(zero and non-zero), global CreatorAddress; address valuations {zero, each literal, creator, a fresh attacker address} are solver values; non-trivial = a set "
        "other than 'any address' was validated on a feasible accepting path",
        [lambda: AddrFields._get_asserted_txn_gtxn, lambda: AddrFields._get_asserted_address, lambda: AddrFields._union, lambda: AddrFields._intersection, lambda: AddrFields._set_addr_values, lambda: D._get_asserted, lambda: D.run_analysis],
        {"unroll": 2, "call_depth": 3, "crosshair_timeout_s": 60 if ctx.quick else 150},
        ["the attacker address is distinct from every address the program names; CreatorAddress is a non-zero address distinct from the literals",
         "converse clause read as: a field pinned to named addresses (no unnamed address admitted) on every accepting direct-check path is not 'any address'"],
    )
    return common.finish(ctx, outcome, ev)


def replay(payload: Dict[str, Any]) -> int:
    return families.replay_s(payload, check)
