"""C09 - the per-block fee bound is an upper bound on every approvable fee (and exact for a single direct check)."""
from __future__ import annotations

from typing import Any, Dict, List, Tuple

from harness import gen_fee
from props import common, families, sdriver
from props.common import Ctx, Outcome, VERIF
from vlib import chrunner, scheck, tealgen as tg
from vlib.tealerio import Run

FEE = ("txn", "Fee")


def check(src: str, spec: Dict[str, Any]) -> Tuple[List[Any], Any]:
    run = Run(src, detectors=[])
    f1, s1 = scheck.check_soundness(src, "C09", keys=("fee",), run=run, unroll=spec.get("unroll", 2))
    if s1.skipped:
        return f1, s1
    f2, s2 = scheck.check_fee_free(src, "C09", exact=bool(spec.get("single")), run=run, unroll=spec.get("unroll", 2))
    return f1 + f2, families.merge_stats(s1, s2)


sdriver.CHECKS["c09"] = check


def family(ctx: Ctx) -> List[Tuple[str, str, Dict[str, Any]]]:
    full = tg.int_atoms(FEE, tg.FEE_CONSTS)
    small = tg.int_atoms(FEE, (1000, 272000, 272001), ("<=", "<", "==", ">"))
    shape_atoms = [tg.Atom(FEE, "<=", ("int", 1000)), tg.Atom(FEE, ">", ("int", 272000), "cf"),
                   tg.Atom(FEE, "==", ("int", 272001)), tg.Atom(FEE, "<", ("int", 0))]
    layout_atoms = [tg.Atom(FEE, "<=", ("int", 1000)), tg.Atom(FEE, ">=", ("int", 2000), "cf"), tg.Atom(FEE, "!=", ("int", 5))]
    pairs = (tg.int_atoms(FEE, (1000, 300000), ("<=", ">")), tg.int_atoms(FEE, (500, 272000), ("<", "==")))
    progs = families.family_d(ctx.quick, ctx.seed, full, small, shape_atoms, layout_atoms, pairs)
    out = []
    for name, src, spec in progs:
        if name.startswith(("a/", "b/")) or (name.startswith("d/") is False and name.startswith("e/") and "/0" in name):
            spec = dict(spec, single=name.startswith("a/"))
        out.append((name, src, spec))
    # spellings of the constant, gtxn forms read with `txn GroupIndex == i` around
    for sp in ("pushint", "intc", "hex", "oct", "intcd"):
        for op in ("<=", "<"):
            for o in ("fc", "cf"):
                out.append((f"c/{sp}-{op}-{o}", tg.emit(tg.Program((tg.Check(tg.Atom(FEE, op, (sp, 1000), o), "assert"), tg.Exit("approve")))), {"single": True}))
    return out


def run(ctx: Ctx) -> int:
    outcome = Outcome()
    text = gen_fee.generate(VERIF, ctx.tier)
    kres = chrunner.run_module(text, f"k_c09_{ctx.tier}", timeout=40 if ctx.quick else 120)
    kcounts = common.k_results_to_outcome(ctx, kres, outcome, "k_c09")
    cov = sdriver.run_family(ctx, "c09", family(ctx), outcome)
    from tealer.analyses.dataflow.transaction_context.fee_field import FeeField
    from tealer.analyses.dataflow.transaction_context.generic import DataflowTransactionContext as D

    ev = families.s_evidence(
        "C09", "translation_validation", cov, kcounts, kres,
        "programs = family D over `txn Fee` compared with constants {0,1,1000,271999,272000,272001,2^64-1} (6 ops, both operand orders, condition trees, all shapes "
        "<= 3/4 statements, layouts, repo corpus); the fee and every other input are solver variables; non-trivial = a non-default bound was checked on a feasible accepting path",
        [lambda: FeeField._get_asserted_fee, lambda: FeeField._get_asserted_max_value, lambda: FeeField._union, lambda: FeeField._intersection, lambda: FeeField._store_results, lambda: D._get_asserted, lambda: D.run_analysis],
        {"unroll": 2, "call_depth": 3, "fuel": 400, "constants": "K: all uint64 c and all uint64 fees; S: alphabet", "crosshair_timeout_s": 40 if ctx.quick else 120},
        ["EXACT mode: well-formed transactions", "'unknown' bound means bounded by MAX_TRANSACTION_COST (the only fact consumers use)",
         "programs comparing Fee with run-time values are outside the claim (documented heuristic) and are skipped for the 'unknown' clause"],
    )
    return common.finish(ctx, outcome, ev)


def replay(payload: Dict[str, Any]) -> int:
    return families.replay_s(payload, check)
