"""C01 - detectors never miss an approvable dangerous transaction."""
from __future__ import annotations

from typing import Any, Dict, List, Tuple

from props import common, detfam, families, sdriver
from props.common import Ctx, Outcome
from vlib import scheck


def check(src: str, spec: Dict[str, Any]) -> Tuple[List[Any], Any]:
    return scheck.check_must_report(src, "C01", unroll=spec.get("unroll", 2))


sdriver.CHECKS["c01"] = check


def run(ctx: Ctx) -> int:
    outcome = Outcome()
    from props import selftest

    st_progs, st_paths, st_errors = selftest.run()
    outcome.harness_errors += ["encoder self-test: " + e for e in st_errors]
    cov = sdriver.run_family(ctx, "c01", detfam.family(ctx), outcome)
    from tealer.detectors import utils as du
    from tealer.detectors.groupsize import MissingGroupSize
    from tealer.detectors.fee_check import MissingFeeCheck
    from tealer.detectors.rekeyto import MissingRekeyTo

    ev = families.s_evidence(
        "C01", "translation_validation", cov, {}, [],
        "programs = family D over all governed fields (address, fee, kind, group-size checks; condition trees; pairs of checks; all shapes; layouts; repo corpus; programs "
        "reading other transactions by absolute index); per program and detector one z3 existence query per accepting path: 'approved with the dangerous value'; "
        "sat => the model is replayed concretely and real run_detectors() must report a path; non-trivial = program with at least one accepting path",
        [lambda: du.detect_missing_tx_field_validations, lambda: du.validated_in_block, lambda: MissingGroupSize.detect, lambda: MissingFeeCheck.detect, lambda: MissingRekeyTo.detect],
        {"unroll": 2, "call_depth": 3, "fuel": 400, "group_size": "1..16 symbolic", "detectors": 9},
        ["well-formed transactions; attacker address distinct from every named address",
         "programs comparing a governed address/fee field with a run-time value are skipped for the address/fee detectors (documented heuristic, outside the claim)",
         "the universal part over constants rests on the K lemmas of C06-C09"],
    )
    ev["coverage"]["encoder_selftest"] = {"programs": st_progs, "paths_replayed": st_paths, "mismatches": len(st_errors)}
    return common.finish(ctx, outcome, ev)


def replay(payload: Dict[str, Any]) -> int:
    return families.replay_s(payload, check)
