"""C05 - subroutine, call-site and return-point structure is faithful (engine G)."""
from __future__ import annotations

from typing import Any, Dict, List, Tuple

from props import common, families, sdriver
from props.common import Ctx, Outcome
from vlib import ctlgen, gcheck, tealgen as tg, tealsem as ts, cfgsem


def check(src: str, spec: Dict[str, Any]) -> Tuple[List[Any], Any]:
    fs, st, info = gcheck.check_subs(src, "C05")
    st.extra = {"states": info["states"], "transitions": info["transitions"], "subroutines": info["subs"]}
    return fs, st


sdriver.CHECKS["c05"] = check


def family(ctx: Ctx) -> List[Tuple[str, str, Dict[str, Any]]]:
    progs: List[Tuple[str, str, Dict[str, Any]]] = []
    for name, src in ctlgen.callgraph_family(2, (3, 4, 5, 6), (ctx.seed, 16 if ctx.quick else 2)):
        p = ts.tokenize(src)
        if cfgsem.is_structured(p):
            progs.append((name, src, {}))
    for L in (3, 4):
        for name, src in ctlgen.valid_programs(L, 2):
            if "C" in name:
                progs.append((f"L{L}/{name}", src, {}))
    five = [(f"L5/{n}", s, {}) for n, s in ctlgen.valid_programs(5, 3) if "C" in n]
    progs += tg.slice_of(five, ctx.seed, 16) if ctx.quick else five
    at = tg.Atom(("global", "GroupSize"), "==", ("int", 2))
    for name, src in tg.layout_programs(at):
        progs.append(("hand/" + name, src, {}))
    for name, src in families.corpus_all():
        if families.in_fragment(src):
            progs.append(("corpus/" + name, src, {}))
    return progs


def run(ctx: Ctx) -> int:
    outcome = Outcome()
    cov = sdriver.run_family(ctx, "c05", family(ctx), outcome)
    from tealer.teal import parse_teal as PT
    from tealer.teal.subroutine import Subroutine
    from tealer.teal.functions import Function
    from tealer.teal.basic_blocks import BasicBlock
    from tealer.printers.call_graph import PrinterCallGraph

    c = cov.get("counters", {})
    ev = families.s_evidence(
        "C05", "model_checking", cov, {}, [],
        "programs = all call matrices over main + 1..2 subroutines (x 5 layouts: subs after/before main, calls in a loop, unreachable caller, call as last instruction), "
        "a seed slice of the 4096 matrices for 3 subroutines, chain/star/shared/cycle/self-recursive/tree patterns for 3..6 subroutines, every control layout with a callsub "
        "(<= 4 slots; slice of 5), hand-written layouts, repo corpus. Per program: subroutine membership = call-free reachability from the entry decided by z3's fixedpoint "
        "engine; names, entries, exits, retsub blocks, called_subroutine, sub_return_point (and its back pointer), caller / return-point tables of Subroutine and of Function, "
        "call-graph edges compared with the control-flow semantics",
        [lambda: PT.parse_teal, lambda: PT.identify_subroutine_blocks, lambda: Subroutine.__init__, lambda: Function.__init__, lambda: BasicBlock.sub_return_point.fget, lambda: PrinterCallGraph._construct_call_graph],
        {"subroutines": "0..6", "max_slots": 5},
        ["programs are assembler-valid and structured", "the DOT text of the call-graph file is outside (C18)"],
    )
    ev["coverage"]["states"] = max(1, int(c.get("states", 0)))
    ev["coverage"]["transitions"] = max(1, int(c.get("transitions", 0)))
    ev["coverage"]["traces_validated_against_impl"] = cov["programs"]
    return common.finish(ctx, outcome, ev)


def replay(payload: Dict[str, Any]) -> int:
    return families.replay_s(payload, check)
