"""C17 (narrow claim) - the analysis completes for every value of every immediate it interprets."""
from __future__ import annotations

from typing import Any, Dict

from harness import gen_index, gen_txn_types, gen_wholeanalysis
from props import kprop
from props.common import Ctx


def run(ctx: Ctx) -> int:
    from tealer.analyses.dataflow.transaction_context.generic import DataflowTransactionContext as D
    from tealer.analyses.dataflow.transaction_context.txn_types import TxnType
    from tealer.analyses.utils import stack_ast_builder as SB
    from tealer.printers import transaction_context as PTC

    return kprop.run_k(
        ctx, "C17",
        [(gen_wholeanalysis, r"^k_noraise_", {"only": "noraise"}), (gen_txn_types, r"^k_kind_(txn|gtxn2)_.*_(all|appl)$|^k_kind_other", {}), (gen_index, r"^k_idx_|^k_key_abs", {})],
        "narrow claim, decided by bounded symbolic execution (CrossHair/z3): no internal error for any value of an immediate that tealer interprets. Whole real analyses "
        "(GroupIndices, FeeField incl. all gtxn keys) are run on one-block functions parsed natively whose immediate is then replaced by a symbolic value: GroupSize / GroupIndex / "
        "Fee constants over all uint64 (post-condition: the block's set / bound is exactly the implied one - whole-pipeline exactness for every constant), gtxn index 0..255, "
        "gtxns offsets and absolute indices over all uint64, intc index beyond the constant block, dig/cover/popn depths 0..255, scratch slots; TypeEnum / OnCompletion / "
        "ApplicationID constants over all uint64 at kernel level (the whole TxnType analysis does not finish under the tracer); index classification for 0..255; the real "
        "transaction-context printer on a 3-block program for every constant (only full_cfg_to_dot / all_subroutines_to_dot / makedirs are stubbed: they ask for the annotation of every block). "
        "Outside: crashes that depend on the layout and everything else about the CLI, the other printers and files (no symbolic dimension) - their graph-level causes are checked under C04/C05/C12",
        [lambda: D.run_analysis, lambda: TxnType._get_asserted_transaction_types, lambda: SB.construct_stack_ast.__wrapped__, lambda: PTC.PrinterTransactionContext.print],
        {"immediates": "uint64 / 0..255"},
        ["programs are one-block functions; larger shapes are covered by the S/G checks, whose workers report an exception raised inside tealer's own code as a `crash:tealer` violation (never attributed to a listed finding)"],
        timeout_quick=200, timeout_thorough=600,
    )


def replay(payload: Dict[str, Any]) -> int:
    print("K replay:", payload.get("harness"), payload.get("call"))
    return 0
