#!/bin/sh
# run every thorough command once, end to end, two at a time (each uses a 16-process pool)
cd "$(dirname "$0")/.." 2>/dev/null || cd .
run2() { ./check $1 --tier thorough > thorough_$1.log 2>&1 & p1=$!; ./check $2 --tier thorough > thorough_$2.log 2>&1 & p2=$!; wait $p1; wait $p2; }
python3 vlib/bootstrap.py
run2 C04 C05
run2 C20 C11
run2 C12 C13
run2 C16 C17
run2 C14 C19
run2 C15 C10
run2 C06 C09
run2 C07 C08
run2 C01 C03
./check C02 --tier thorough > thorough_C02.log 2>&1
grep -h "RESULT" thorough_*.log
