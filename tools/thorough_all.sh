#!/bin/sh
# run thorough commands once, end to end, three at a time (each uses a 16-process pool), longest first;
# usage: thorough_all.sh [ID ...]   (default: all claimed properties)
cd "$(dirname "$0")/.." 2>/dev/null || cd .
python3 vlib/bootstrap.py
LIST="$*"
[ -n "$LIST" ] || LIST="C03 C01 C06 C02 C07 C08 C09 C15 C13 C12 C10 C11 C16 C19 C14 C17 C20 C04 C05"
rm -f thorough_status.txt
printf '%s\n' $LIST | xargs -P 3 -I{} sh -c './check {} --tier thorough > thorough_{}.log 2>&1; echo "{} exit $?" >> thorough_status.txt'
grep -h "RESULT" thorough_*.log
! grep -v "exit 0" thorough_status.txt
