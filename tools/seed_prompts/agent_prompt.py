import sys
pid = sys.argv[1]
prop = open(f"/tmp/prop_{pid}.txt").read()
print(f"""You are helping to evaluate a verification framework by producing ONE realistic, subtle defect ("seeded bug") in the open-source project crytic/tealer (a Python static analyzer for Algorand TEAL smart contracts).

You have your own scratch git worktree of the repository at /tmp/seed_{pid} (python interpreter with all dependencies: /venv/bin/python). Work ONLY inside /tmp/seed_{pid}. Do NOT read, list or use anything under /verif or /root, and do not touch /repo. There is no network.

The semantic property your change must BREAK:

{prop}

Task:
1. Read the relevant tealer code in /tmp/seed_{pid}/tealer to understand how the property is currently upheld.
2. Make a small change to the tealer source (not to tests) that breaks this property while the code still imports/compiles and the EXISTING test-suite still passes. Prefer a change that needs something specific to manifest (an unusual input, a particular operand order / constant / boundary value, a particular placement of a check, a multi-step sequence, or two cooperating sites that each look fine alone) rather than one that ordinary use exposes at once. It should look like a plausible developer mistake or an over-eager "optimisation"/refactoring, not sabotage (no special-casing of magic strings).
3. Confirm the existing tests still pass with your change. Running the most relevant test files is quick:
   cd /tmp/seed_{pid} && /venv/bin/python -m pytest -q -p no:cacheprovider -x -n 4 tests/transaction_context tests/test_detectors.py tests/test_cfg.py tests/test_parsing.py tests/test_regex.py tests/test_subroutine_identification.py tests/test_versions.py tests/test_string_representation.py tests/test_mode_detector.py tests/group_transactions
   (the remaining files tests/test_detectors_using_pyteal.py and tests/test_parsing_using_pyteal.py take about a minute more; run them too if your change could affect them). IMPORTANT: pytest must be started from /tmp/seed_{pid} so that it imports tealer from your worktree.
4. Write a demonstration: a small standalone python script /tmp/seed_{pid}/SEED/demo.py that, when run as `cd /tmp/seed_{pid} && /venv/bin/python SEED/demo.py`, first does `import sys, os; sys.path.insert(0, os.getcwd())` so that tealer is imported from the current directory (and asserts `tealer.__file__.startswith(os.getcwd())`), exercises the public API (e.g. tealer.utils.command_line.common.init_tealer_from_single_contract, tealer.teal.parse_teal.parse_teal, detectors, match_regex, ...) on a concrete TEAL program / configuration and exits with status 1 (printing what is wrong) when the property is violated and 0 when it holds. It must exit 1 with your change and exit 0 on the unmodified code (verify both, e.g. with `git stash` / `git stash pop`, or by checking out the original file temporarily).
5. Save the change as a unified diff: `cd /tmp/seed_{pid} && git diff -- tealer > SEED/patch.diff` (the diff must contain only changes under tealer/).
6. Write /tmp/seed_{pid}/SEED/notes.md: which property it breaks and how, what is needed for it to manifest, which tests you ran and their result.

Leave the change applied in the worktree when you finish. In your final answer summarise: the files changed, the idea of the bug, what input triggers it, and the test results. Keep the change small (a few lines).""")
