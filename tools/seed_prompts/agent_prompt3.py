import sys
pid = sys.argv[1]
prior = {
 "C11": "PopN-style slicing with a negative index in the stack reconstruction when an instruction pops more values than the block has pushed",
 "C14": "re-queueing a subroutine's return point only while it is still unreached in the dataflow worklist (order dependence through list(set(..)))",
 "C15": "`value_2 or value_3` treating the constant 0 (NoOp) as missing in TxnType when OnCompletion is compared with the constant pushed first",
 "C16": "an `isdigit()` fast path for array-field indices that mis-parses octal literals",
 "C17": "clearing `prev` of unreachable blocks in parse_teal so that unreachable code with a backward jump crashes",
 "C19": "a `continue` in the mode/version detector that skips the mode bookkeeping when an instruction is not supported in the declared version",
 "C20": "dropping match-start blocks from the `covered` fixpoint of the regex engine",
}[pid]
prop = open(f"/tmp/prop_{pid}.txt").read()
t = open("/tmp/prompt2_C09.txt").read()
head, rest = t.split("The semantic property your change must BREAK:")
_, tail = rest.split("Another engineer has already produced")
tail = tail.split("Task:", 1)[1]
out = head + "The semantic property your change must BREAK:\n\n" + prop.strip() + "\n\n\nAnother engineer has already produced the following idea for this property, so yours must be DIFFERENT (a different function or mechanism, ideally a different file): " + prior + ".\n\nTask:" + tail
out = out.replace("seed2_C09", f"seed3_{pid}")
out = out.replace("(verify both, e.g. with `git stash` / `git stash pop`, or by checking out the original file temporarily)", "(verify both with `git apply -R SEED/patch.diff` and then `git apply SEED/patch.diff`; do NOT use `git stash`: the stash is shared between all worktrees of this repository and other engineers are working in theirs)")
open(f"/tmp/prompt3_{pid}.txt", "w").write(out)
