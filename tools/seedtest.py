#!/usr/bin/env python3
"""Confirm a seeded change and run checks against it.

usage: seedtest.py <seed-dir-with-patch.diff-and-demo.py> <name> <PROP> [more PROPs...] [--no-suite]

1. in a scratch worktree of /repo HEAD (outside /repo and /verif): the demo passes without the patch and
   fails with it; the complete existing test-suite passes with the patch;
2. applies the patch to /repo, runs `./check <PROP> --tier quick` for every listed property, and undoes
   the patch straight afterwards (git checkout -- .);
3. stores patch.diff, the demonstration and meta.json under /verif/seeded/<name>/.
"""
import json
import os
import shutil
import subprocess
import sys
import time

VERIF = os.path.dirname(os.path.dirname(os.path.abspath(__file__)))


def sh(cmd, cwd=None, timeout=3600):
    r = subprocess.run(cmd, shell=True, cwd=cwd, capture_output=True, text=True, timeout=timeout)
    return r.returncode, r.stdout + r.stderr


def main():
    args = [a for a in sys.argv[1:] if not a.startswith("--")]
    src, name, props = args[0], args[1], args[2:]
    suite = "--no-suite" not in sys.argv
    patch = os.path.join(src, "patch.diff")
    demo = os.path.join(src, "demo.py")
    wt = f"/tmp/seedcheck_{name}"
    sh(f"git -C /repo worktree remove --force {wt}")
    rc, out = sh(f"git -C /repo worktree add -f {wt} HEAD -q")
    meta = {"name": name, "breaks": props[0] if props else None, "checked_at": time.strftime("%Y-%m-%d %H:%M:%S"), "ran": []}
    try:
        os.makedirs(os.path.join(wt, "SEED"), exist_ok=True)
        shutil.copy(demo, os.path.join(wt, "SEED", "demo.py"))
        rc0, out0 = sh("/venv/bin/python SEED/demo.py", cwd=wt, timeout=600)
        meta["demo_without_patch_exit"] = rc0
        rc, out = sh(f"git apply {patch}", cwd=wt)
        if rc != 0:
            print("patch does not apply:", out)
            meta["patch_applies"] = False
            return 2
        rc1, out1 = sh("/venv/bin/python SEED/demo.py", cwd=wt, timeout=600)
        meta["demo_with_patch_exit"] = rc1
        meta["demo_with_patch_output"] = out1[-800:]
        print(f"demo: without patch exit {rc0}, with patch exit {rc1}")
        if suite:
            t0 = time.time()
            rc, out = sh("/venv/bin/python -m pytest -q -p no:cacheprovider --timeout=900 -n 10", cwd=wt, timeout=3600)
            tail = out.strip().splitlines()[-1] if out.strip() else ""
            meta["suite_with_patch"] = tail
            meta["suite_exit"] = rc
            print("suite with patch:", tail, f"({time.time() - t0:.0f}s)")
    finally:
        sh(f"git -C /repo worktree remove --force {wt}")
    override = "--override" in sys.argv
    envp = ""
    if override:
        # /repo is in use (e.g. by a long thorough run): run the checks against a scratch worktree that carries the
        # patch, by putting it first on PYTHONPATH (the checks import the first `tealer` on sys.path)
        wt2 = f"/tmp/seedrun_{name}"
        sh(f"git -C /repo worktree remove --force {wt2}")
        sh(f"git -C /repo worktree add -f {wt2} HEAD -q")
        sh(f"git apply {patch}", cwd=wt2)
        envp = f"PYTHONPATH={wt2} "
        meta["applied_to"] = "scratch worktree on PYTHONPATH (override)"
        sh(f"rm -rf /tmp/ev_backup_{name}; cp -r {VERIF}/evidence /tmp/ev_backup_{name}")
    else:
        # run the checks against the patched /repo
        rc, out = sh("git -C /repo status --porcelain")
        if out.strip():
            print("/repo is not clean; refusing to apply", out)
            return 2
        rc, out = sh(f"git -C /repo apply {patch}")
        meta["applied_to"] = "/repo (git apply, undone afterwards)"
    try:
        for p in props:
            t0 = time.time()
            rc, out = sh(f"{envp}./check {p} --tier quick", cwd=VERIF, timeout=7200)
            viol = [l for l in out.splitlines() if l.startswith("VIOLATION")]
            first = [l for l in out.splitlines() if l.startswith("    ")][:3]
            res = [l for l in out.splitlines() if l.startswith("RESULT")]
            meta["ran"].append({"check": f"./check {p} --tier quick", "exit": rc, "violations": len(viol), "first": first, "result": res[-1] if res else "", "seconds": round(time.time() - t0)})
            print(f"{p}: exit {rc}, {len(viol)} VIOLATION lines; {first[:1]}")
    finally:
        if override:
            sh(f"git -C /repo worktree remove --force /tmp/seedrun_{name}")
            sh(f"rm -rf {VERIF}/evidence && cp -r /tmp/ev_backup_{name} {VERIF}/evidence && rm -rf /tmp/ev_backup_{name}")
        else:
            sh("git -C /repo checkout -- .")
            # evidence files were rewritten against the patched tree: restore the committed ones
            sh("git -C /verif checkout -- evidence")
        sh("rm -rf /verif/replays")
    dest = os.path.join(VERIF, "seeded", name)
    os.makedirs(dest, exist_ok=True)
    shutil.copy(patch, os.path.join(dest, "patch.diff"))
    shutil.copy(demo, os.path.join(dest, "demo.py"))
    notes = os.path.join(src, "notes.md")
    if os.path.exists(notes):
        shutil.copy(notes, os.path.join(dest, "notes.md"))
    meta["detected_by"] = [r["check"] for r in meta["ran"] if r["exit"] == 1]
    with open(os.path.join(dest, "meta.json"), "w") as f:
        json.dump(meta, f, indent=1)
    print("stored in", dest, "detected by", meta["detected_by"])
    return 0


if __name__ == "__main__":
    sys.exit(main())
