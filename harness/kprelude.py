"""Helpers shared by the generated CrossHair harness modules (engine K).

Everything here builds *real* tealer objects; symbols are resolved by name so that a refactoring
that removes a private helper makes a harness "unavailable on this tree" instead of failing.
"""
# pylint: disable=import-outside-toplevel,wrong-import-position
import logging

logging.disable(logging.CRITICAL)

from tealer.analyses.utils.stack_ast_builder import KnownStackValue, UnknownStackValue  # noqa: E402
from tealer.teal.instructions import instructions as I  # noqa: E402
from tealer.teal.instructions import transaction_field as TF  # noqa: E402
from tealer.teal import global_field as GF  # noqa: E402
from tealer.teal.basic_blocks import BasicBlock  # noqa: E402
from tealer.teal.teal import Teal  # noqa: E402
from tealer.utils.teal_enums import ExecutionMode  # noqa: E402

logging.disable(logging.CRITICAL)

MAX_UINT64 = 2**64 - 1
OPS = {
    "Eq": (I.Eq, lambda a, b: a == b),
    "Neq": (I.Neq, lambda a, b: a != b),
    "Less": (I.Less, lambda a, b: a < b),
    "LessE": (I.LessE, lambda a, b: a <= b),
    "Greater": (I.Greater, lambda a, b: a > b),
    "GreaterE": (I.GreaterE, lambda a, b: a >= b),
}


def sv(ins, args=None):
    return KnownStackValue(ins, list(args or []))


def fresh_teal(int_constants=None):
    """A real Teal object + block, so that intc* instructions can look up the constant block."""
    bb = BasicBlock()
    teal = Teal(8, ExecutionMode.ANY, [], [bb], None, {})  # type: ignore[arg-type]
    bb.teal = teal
    if int_constants is not None:
        teal.set_int_constants(list(int_constants))
    return teal, bb


def const_value(kind, c):
    """Stack value of a constant-pushing instruction of the given spelling."""
    if kind == "Int":
        return sv(I.Int(c))
    if kind == "PushInt":
        return sv(I.PushInt(c))
    if kind == "Intc":  # intc 0 with a known constant block [c]
        _, bb = fresh_teal([c])
        ins = I.Intc(0)
        ins.bb = bb
        return sv(ins)
    if kind == "Intc1":  # intc_1 with constant block [7, c]
        _, bb = fresh_teal([7, c])
        ins = I.Intc1()
        ins.bb = bb
        return sv(ins)
    if kind == "IntcUnknown":  # index beyond the constant block: value unknown to the tool
        _, bb = fresh_teal([])
        ins = I.Intc(0)
        ins.bb = bb
        return sv(ins)
    raise ValueError(kind)


def field_value(ref):
    """ref: ("txn", F) | ("gtxn", i, F) | ("gtxns_int", i, F) | ("gtxns_rel", k, F) | ("global", G)"""
    k = ref[0]
    if k == "global":
        return sv(I.Global(getattr(GF, ref[1])()))
    if k == "txn":
        return sv(I.Txn(getattr(TF, ref[1])()))
    if k == "gtxn":
        return sv(I.Gtxn(ref[1], getattr(TF, ref[2])()))
    if k == "gtxns_int":
        return sv(I.Gtxns(getattr(TF, ref[2])()), [sv(I.Int(ref[1]))])
    if k == "gtxns_self":
        return sv(I.Gtxns(getattr(TF, ref[1])()), [sv(I.Txn(TF.GroupIndex()))])
    if k == "gtxns_rel":
        off = ref[1]
        gi = sv(I.Txn(TF.GroupIndex()))
        n = sv(I.Int(abs(off)))
        idx = sv(I.Add() if off >= 0 else I.Sub(), [gi, n])
        return sv(I.Gtxns(getattr(TF, ref[2])()), [idx])
    raise ValueError(ref)


def cmp_value(opname, first, second):
    """The stack value of `first second op` (first is pushed first, i.e. it is operand A of `A op B`)."""
    return sv(OPS[opname][0](), [first, second])


def analysis(cls):
    """An analysis object without a function graph (the kernels under test do not use it)."""
    return cls.__new__(cls)
